"""Reference models, written independently of the code under test (pure Python, no pandas)."""
import math
import re
from fractions import Fraction

DEFAULTS = {'MSA': None, 'MSA_HIT_BUFFER': 1500, 'MAX_HITS_OKTA0': 3, 'MAX_HOLES_OKTA8': 1,
            'BASE_LVL_HEIGHT_PERC': 5, 'BASE_LVL_LOOKBACK_PERC': 100,
            'EXCLUDE_FOR_BASE_HEIGHT_CALC': [], 'MIN_SEP_VALS': [250, 1000],
            'MIN_SEP_LIMS': [10000]}


def prm(case_prms, key):
    if case_prms and key in case_prms:
        return case_prms[key]
    return DEFAULTS[key]


# ------------------------------------------------------------------------------------------------
# Crop model (C05, C07, C02)


def crop_model(rows, prms):
    """ rows: [[ceilo, dt, h|None, type]] -> (rows after cropping, n_above, flag). """
    msa = prm(prms, 'MSA')
    if msa is None:
        return [list(r) for r in rows], 0, False
    lim = msa + prm(prms, 'MSA_HIT_BUFFER')
    out, above = [], 0
    for r in rows:
        if r[2] is not None and r[2] > lim:
            above += 1
            if r[3] <= 1:
                out.append([r[0], r[1], None, 0])
        else:
            out.append(list(r))
    return out, above, above > prm(prms, 'MAX_HITS_OKTA0')


# ------------------------------------------------------------------------------------------------
# Coverage model (C03, C18)


def okta_candidates(n, total):
    """ WMO binning of n/total in exact integer arithmetic -> set of acceptable oktas (a set of two
    only at exact x.5 ties: the docstring says half-down, np.round is half-even, the property only
    says 'nearest'). """
    if n == 0:
        return {0}
    if n == total:
        return {8}
    lo, rem = divmod(8 * n, total)
    if 2 * rem == total:
        cands = {lo, lo + 1}
    elif 2 * rem < total:
        cands = {lo}
    else:
        cands = {lo + 1}
    return {min(7, max(1, c)) for c in cands}


def coverage_okta(n, total, max_hits0, max_holes8):
    if n <= max_hits0:
        return {0}
    if total - n <= max_holes8:
        return {8}
    return okta_candidates(n, total)


def okta_code(okta):
    return {0: 'NCD', 1: 'FEW', 2: 'FEW', 3: 'SCT', 4: 'SCT', 5: 'BKN', 6: 'BKN', 7: 'BKN',
            8: 'OVC'}[okta]


def height_code(h):
    if h <= 10000:
        return f'{int(math.floor(h / 100)):03d}'
    return f'{int(math.floor(h / 1000)) * 10:03d}'


# ------------------------------------------------------------------------------------------------
# Base height model (C04, C06)


def percentile_linear(vals, q):
    """ Linear-interpolation percentile (numpy's default definition), own implementation. """
    v = sorted(vals)
    if len(v) == 1:
        return v[0]
    pos = (len(v) - 1) * q / 100.0
    lo = int(math.floor(pos))
    hi = min(lo + 1, len(v) - 1)
    frac = pos - lo
    return v[lo] + (v[hi] - v[lo]) * frac


def lookback_counts(n, lookback):
    """ Acceptable numbers of most-recent hits: floor(n*lookback/100), in exact rational arithmetic on the
    parameter value and as the plain float expression (they differ only for non-representable lookbacks). """
    from fractions import Fraction
    ks = {int(n * lookback / 100)}
    try:
        ks.add(math.floor(n * Fraction(lookback) / 100))
    except (TypeError, ValueError):
        pass
    return sorted(ks)


def base_interval(members, lookback, perc):
    """ members: list of (dt, height). Returns (lo, hi, k, n): the interval of acceptable bases.
    The most recent k = floor(n*lookback/100) hits are used; ties in dt at the cut make the
    choice ambiguous, hence an interval. k == 0 -> the code's slice [-0:] takes everything. """
    n = len(members)
    los, his = [], []
    ks = lookback_counts(n, lookback)
    for k in ks:
        if k <= 0 or k >= n:
            hs = [m[1] for m in members]
            b = percentile_linear(hs, perc)
            los.append(b)
            his.append(b)
            continue
        srt = sorted(members, key=lambda m: m[0])
        cut_dt = srt[n - k][0]
        later = [m[1] for m in srt if m[0] > cut_dt]
        tied = sorted(m[1] for m in srt if m[0] == cut_dt)
        need = k - len(later)
        lo = percentile_linear(later + tied[:need], perc)
        hi = percentile_linear(later + tied[len(tied) - need:], perc)
        los.append(min(lo, hi))
        his.append(max(lo, hi))
    return min(los), max(his), ks[0], n


def min_sep_for(height, lims, vals):
    """ -> set of acceptable min-sep values (two when the height sits exactly on a limit). """
    out = set()
    idx = 0
    for lim in lims:
        if height > lim:
            idx += 1
    out.add(vals[idx])
    for j, lim in enumerate(lims):
        if height == lim:
            out.add(vals[j])
            out.add(vals[j + 1])
    return out


# ------------------------------------------------------------------------------------------------
# ICAO fold and message model (C01, C02)


def fold135(oktas):
    cnt, out = 0, []
    for o in oktas:
        sig = cnt < 3 and o >= (1, 3, 5)[cnt]
        out.append(bool(sig))
        cnt += sig
    return out


def message_model(table, msa, n_above, max_hits0):
    """ table: list of dict(okta, height_base, code) in table order. """
    msa_val = math.inf if msa is None else msa
    if not table:
        return 'NSC' if n_above > max_hits0 else 'NCD'
    sig = fold135([r['okta'] for r in table])
    groups = [r['code'] for r, s in zip(table, sig) if s and r['height_base'] < msa_val]
    if groups:
        return ' '.join(groups)
    if any(r['okta'] >= 1 and r['height_base'] >= msa_val for r in table):
        return 'NSC'
    return 'NSC' if n_above > max_hits0 else 'NCD'


MSG_RE = re.compile(r'^(NCD|NSC|(FEW|SCT|BKN|OVC)\d{3}( (FEW|SCT|BKN|OVC)\d{3}){0,2})$')
RANK = {'FEW': 1, 'SCT': 2, 'BKN': 3, 'OVC': 4}


# ------------------------------------------------------------------------------------------------
# Screening model (C15)


def _same(a, b):
    if a is None and b is None:
        return True
    if a is None or b is None:
        return False
    return a == b   # -0.0 == 0.0 is True, as for pandas.duplicated on floats


def screening_model(rows):
    """ rows: coerced [[ceilo(str), dt(float), h(float|None), type(int)]] -> reason or None. """
    if len(rows) == 0:
        return 'empty'
    seen = {}
    for r in rows:
        key = (r[0], r[1] + 0.0, None if r[2] is None else r[2] + 0.0, r[3])
        if key in seen:
            return 'duplicated'
        seen[key] = True
    by = {}
    for r in rows:
        by.setdefault((r[0], r[1] + 0.0), set()).add(r[3])
    for types in by.values():
        if 0 in types and len(types) > 1:
            return 'type0+non0'
        if -1 in types and len(types) > 1:
            return 'vv+nonvv'
    return None
