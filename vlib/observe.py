"""Building frames from cases, running the pipeline, and canonical bit-exact snapshots."""
import copy
import math

import numpy as np
import pandas as pd


def build_frame(rows, canonical=True):
    """ rows: [[ceilo, dt, height|None, type], ...] -> DataFrame with the documented dtypes. """
    df = pd.DataFrame({
        'ceilo': [str(r[0]) for r in rows],
        'dt': [float(r[1]) for r in rows],
        'height': [float('nan') if r[2] is None else float(r[2]) for r in rows],
        'type': [int(r[3]) for r in rows],
    })
    if canonical:
        df['ceilo'] = df['ceilo'].astype(pd.StringDtype())
        df['dt'] = df['dt'].astype(float)
        df['height'] = df['height'].astype(float)
        df['type'] = df['type'].astype(int)
    return df


class GlobalPrms:
    """ Context manager: apply case['gprms'] to the global dict, always reset afterwards. """

    def __init__(self, gprms=None):
        self.gprms = gprms

    def __enter__(self):
        import ampycloud
        from ampycloud import dynamic
        ampycloud.reset_prms()
        if self.gprms:
            _deep_set(dynamic.AMPYCLOUD_PRMS, self.gprms)
        return self

    def __exit__(self, *exc):
        import ampycloud
        ampycloud.reset_prms()
        return False


def _deep_set(ref, new):
    for k, v in new.items():
        if isinstance(v, dict) and isinstance(ref.get(k), dict) and k != 'height_scale_kwargs':
            _deep_set(ref[k], v)
        else:
            ref[k] = copy.deepcopy(v)


def run_case(case, frame=None):
    """ -> chunk. Raises whatever ampycloud raises. """
    import ampycloud
    if frame is None:
        frame = build_frame(case['rows'])
        if case.get('index') and case['index'] != 'range':
            from vlib import strategies as S
            frame = S.apply_index(frame, case['index'])
    with GlobalPrms(case.get('gprms')):
        chunk = ampycloud.run(frame, prms=copy.deepcopy(case.get('prms') or None))
    return chunk


def fhex(x):
    """ Canonical bit-exact text of a scalar. """
    if x is None or x is pd.NA:
        return None
    if isinstance(x, (bool, np.bool_)):
        return bool(x)
    if isinstance(x, (int, np.integer)):
        return int(x)
    if isinstance(x, (float, np.floating)):
        x = float(x)
        if math.isnan(x):
            return 'nan'
        return x.hex()
    return str(x)


def table_snapshot(pdf, drop=()):
    if pdf is None:
        return None
    out = {'__len__': len(pdf), '__index__': [fhex(i) for i in pdf.index]}
    for col in pdf.columns:
        if col in drop:
            continue
        out[col] = [fhex(v) for v in pdf[col].tolist()]
        out['__dtype__' + col] = str(pdf[col].dtype)
    return out


def messages(chunk):
    out = {}
    for which in ('slices', 'groups', 'layers'):
        try:
            out[which] = chunk.metar_msg(which)
        except Exception as err:  # noqa
            out[which] = f'<{type(err).__name__}>'
    return out


def snapshot(chunk, data=True, index=True):
    snap = {'slices': table_snapshot(chunk.slices), 'groups': table_snapshot(chunk.groups),
            'layers': table_snapshot(chunk.layers), 'msg': messages(chunk),
            'flag': bool(chunk.clouds_above_msa_buffer)}
    if data:
        snap['data'] = table_snapshot(chunk.data)
        if not index:
            snap['data'].pop('__index__')
    return snap


def diff_snap(a, b, path=''):
    """ First difference between two snapshots, as text (None if equal). """
    if type(a) is not type(b):
        return f'{path}: {type(a).__name__} != {type(b).__name__} ({str(a)[:80]} | {str(b)[:80]})'
    if isinstance(a, dict):
        for k in sorted(set(a) | set(b)):
            if k not in a or k not in b:
                return f'{path}/{k}: present on one side only'
            d = diff_snap(a[k], b[k], f'{path}/{k}')
            if d:
                return d
        return None
    if isinstance(a, list):
        if len(a) != len(b):
            return f'{path}: len {len(a)} != {len(b)}'
        for i, (x, y) in enumerate(zip(a, b)):
            d = diff_snap(x, y, f'{path}[{i}]')
            if d:
                return d
        return None
    if a != b:
        return f'{path}: {_show(a)} != {_show(b)}'
    return None


def _show(x):
    if isinstance(x, str) and x.startswith(('0x', '-0x')):
        try:
            return f'{float.fromhex(x)!r}'
        except ValueError:
            pass
    return repr(x)


def table_rows(pdf):
    """ list of dict rows with python scalars """
    if pdf is None:
        return []
    return [{c: (v.item() if hasattr(v, 'item') else v) for c, v in row.items()}
            for row in pdf.to_dict('records')]


def innermost_ampycloud_frame(exc):
    """ (file:func) of the innermost traceback frame that lies in the ampycloud package. """
    import traceback
    where = 'outside-ampycloud'
    for fs in traceback.extract_tb(exc.__traceback__):
        if '/ampycloud/' in fs.filename.replace('\\', '/'):
            where = f"{fs.filename.split('/ampycloud/')[-1]}:{fs.name}"
    return where


def crash_sig(exc):
    return f'{type(exc).__name__}@{innermost_ampycloud_frame(exc)}'
