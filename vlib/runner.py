"""Runner: sharding, seeding, bucketing, minimisation, replay, evidence, exit codes.

    ./check <ID> [--tier quick|thorough] [--replay FILE]

Exit codes: 0 = property held on everything explored (possibly with KNOWN-FINDING lines),
1 = VIOLATION line(s) printed, 2 = harness error (HARNESS-ERROR line, never a VIOLATION line).
"""
import argparse
import collections
import concurrent.futures as cf
import hashlib
import importlib
import json
import multiprocessing as mp
import os
import re
import sys
import time
import traceback

VERIF = os.path.dirname(os.path.dirname(os.path.abspath(__file__)))
REPO_SRC = os.environ.get('VERIF_SRC', '/repo/src')
NPROC = int(os.environ.get('VERIF_NPROC', '16'))


def setup_path():
    """ Make sure the code under test is the working tree of /repo (or VERIF_SRC for self-tests). """
    if sys.path[0] != REPO_SRC:
        sys.path.insert(0, REPO_SRC)
    import ampycloud
    if not os.path.abspath(ampycloud.__file__).startswith(os.path.abspath(REPO_SRC)):
        raise RuntimeError(f'ampycloud imported from {ampycloud.__file__}, expected {REPO_SRC}')
    import logging
    logging.getLogger('ampycloud').setLevel(logging.CRITICAL)
    logging.getLogger('matplotlib').setLevel(logging.ERROR)
    import warnings
    warnings.simplefilter('ignore')


def derive_seed(*parts) -> int:
    h = hashlib.sha256('|'.join(str(p) for p in parts).encode()).digest()
    return int.from_bytes(h[:8], 'big')


def digest(obj) -> str:
    return hashlib.sha1(json.dumps(obj, sort_keys=True, default=str).encode()).hexdigest()[:16]


# ------------------------------------------------------------------------------------------------
# Results of one evaluated case


def failure(clause: str, sig: str, detail: str = '') -> dict:
    """ A property failure: clause of the property, stable signature (bucket), free detail. """
    return {'clause': clause, 'sig': sig, 'detail': str(detail)[:1500]}


class Result:
    """ Outcome of mod.check(case). """

    def __init__(self):
        self.failures = []       # list of failure()
        self.nontrivial = False  # by the property's stated rule
        self.key = None          # distinctness key (anything json-able); None -> digest of case
        self.labels = []         # class labels (histogram in evidence)
        self.sample = None       # abbreviated, json-able description of the case
        self.skipped = None      # reason when the case lies outside the property's domain
        self.evals = 1           # executions of the code under test this case stands for
        self.cover = []          # small strings: cells of a finite coverage table the case falls into

    def fail(self, clause, sig, detail=''):
        self.failures.append(failure(clause, sig, detail))


class Stats:
    """ Mergeable counters of one shard / job. """

    def __init__(self):
        self.cases = 0
        self.evaluations = 0
        self.keys = set()
        self.distinct_extra = 0   # enumerations whose cases are distinct by construction
        self.labels = collections.Counter()
        self.skipped = collections.Counter()
        self.known_hits = collections.Counter()
        self.failures = {}        # bucket -> {'case':..., 'failure':...}
        self.samples = []
        self.replayed = 0
        self.exhaustive = []      # descriptions of fully enumerated sub-domains
        self.notes = []
        self.harness_errors = []
        self.cover = set()

    def merge(self, other):
        self.cover |= other.cover
        self.cases += other.cases
        self.evaluations += other.evaluations
        self.keys |= other.keys
        self.distinct_extra += other.distinct_extra
        self.labels.update(other.labels)
        self.skipped.update(other.skipped)
        self.known_hits.update(other.known_hits)
        for b, f in other.failures.items():
            self.failures.setdefault(b, f)
        for s in other.samples:
            if len(self.samples) < 6:
                self.samples.append(s)
        self.replayed += other.replayed
        self.exhaustive += [e for e in other.exhaustive if e not in self.exhaustive]
        self.notes += [n for n in other.notes if n not in self.notes]
        self.harness_errors += other.harness_errors


class Ctx:
    """ What a job needs: stats + the known-findings filter. """

    def __init__(self, pid, known):
        self.pid = pid
        self.known = [k for k in known if k.get('property') == pid and k.get('status') == 'open']
        self.stats = Stats()

    def is_known(self, f):
        bucket = f"{f['clause']}|{f['sig']}"
        for k in self.known:
            if re.search(k['signature'], bucket):
                return k
        return None

    def record(self, case, res, overwrite=False, sample_rate=1):
        """ Book-keeping for one evaluated case. Returns the list of *unlisted* failures. """
        st = self.stats
        st.cases += 1
        st.evaluations += res.evals
        for lab in res.labels:
            st.labels[lab] += 1
        st.cover.update(res.cover)
        if res.skipped:
            st.skipped[res.skipped] += 1
        if res.nontrivial:
            key = digest(res.key if res.key is not None else case)
            if key not in st.keys:
                st.keys.add(key)
                if len(st.samples) < 3 and st.cases % sample_rate == 0:
                    st.samples.append(res.sample if res.sample is not None else abbreviate(case))
        new = []
        for f in res.failures:
            k = self.is_known(f)
            if k is not None:
                st.known_hits[k['key']] += 1
                continue
            new.append(f)
            bucket = f"{f['clause']}|{f['sig']}"
            if overwrite or bucket not in st.failures:
                st.failures[bucket] = {'case': case, 'failure': f}
        return new


def abbreviate(obj, maxlist=12, depth=0):
    """ Shorten a case for the evidence file. """
    if isinstance(obj, dict):
        return {k: abbreviate(v, maxlist, depth + 1) for k, v in obj.items()}
    if isinstance(obj, (list, tuple)):
        if len(obj) > maxlist:
            return [abbreviate(v, maxlist, depth + 1) for v in obj[:maxlist]] + \
                [f'... {len(obj) - maxlist} more']
        return [abbreviate(v, maxlist, depth + 1) for v in obj]
    return obj


# ------------------------------------------------------------------------------------------------
# Engines usable by property modules


class _PropFail(Exception):
    pass


def hyp_explore(mod, ctx, strategy, n_examples, seed, shrink=False):
    """ Drive mod.check with Hypothesis-generated cases. Collect-and-continue by default; with
    shrink=True the first unlisted failure is raised so that Hypothesis shrinks it. """
    import hypothesis
    from hypothesis import HealthCheck, Phase, given, settings

    phases = [Phase.generate] + ([Phase.shrink] if shrink else [])
    last = {}

    @hypothesis.seed(seed)
    @settings(max_examples=n_examples, database=None, deadline=None, derandomize=False,
              report_multiple_bugs=False, suppress_health_check=list(HealthCheck), phases=phases,
              print_blob=False)
    @given(strategy)
    def run(case):
        res = mod.check(case)
        new = ctx.record(case, res, overwrite=shrink)
        if new and shrink:
            last['case'] = case
            raise _PropFail()

    try:
        run()
    except _PropFail:
        pass
    except hypothesis.errors.Unsatisfiable as err:
        ctx.stats.harness_errors.append(f'strategy unsatisfiable: {err}')


def machine_explore(ctx, machine_cls, n_examples, seed, steps=30):
    """ Drive a RuleBasedStateMachine. The machine records through ctx itself (in teardown). """
    import hypothesis
    from hypothesis import HealthCheck, Phase, settings
    from hypothesis.stateful import run_state_machine_as_test
    try:
        run_state_machine_as_test(
            hypothesis.seed(seed)(machine_cls),
            settings=settings(max_examples=n_examples, stateful_step_count=steps, database=None,
                              deadline=None, derandomize=False, report_multiple_bugs=False,
                              suppress_health_check=list(HealthCheck),
                              phases=[Phase.generate, Phase.shrink], print_blob=False))
    except _PropFail:
        pass


PropFail = _PropFail


def atheris_explore(mod, ctx, pid, runs, seed, tier, seed_corpus=30):
    """ Run the coverage-guided engine (vlib/fuzz_atheris.py) in a subprocess and fold its counters and
    any failing case into ctx. Skipped (with a note) when atheris cannot be imported. """
    import shutil
    import subprocess
    import tempfile
    try:
        import atheris  # noqa: F401
    except Exception as exc:  # noqa
        ctx.stats.notes.append(f'atheris engine skipped: {type(exc).__name__}')
        return
    out = tempfile.mkdtemp(prefix=f'ath_{pid}_')
    try:
        proc = subprocess.run([sys.executable, '-m', 'vlib.fuzz_atheris', pid, '--runs', str(runs), '--seed', str(seed),
                               '--out', out, '--seed-corpus', str(seed_corpus), '--tier', tier],
                              cwd=VERIF, capture_output=True, text=True)
        spath = os.path.join(out, 'stats.json')
        if not os.path.exists(spath):
            ctx.stats.harness_errors.append('atheris run left no stats: ' + proc.stderr[-600:])
            return
        with open(spath, encoding='utf-8') as fil:
            st = json.load(fil)
        ctx.stats.cases += st['cases']
        ctx.stats.evaluations += st['evaluations']
        ctx.stats.keys |= set(st['keys'])
        ctx.stats.labels.update(st['labels'])
        ctx.stats.labels['atheris-execs'] += st['execs']
        ctx.stats.skipped.update(st['skipped'])
        for smp in st['samples'][:1]:
            if len(ctx.stats.samples) < 3:
                ctx.stats.samples.append(smp)
        for fn in sorted(os.listdir(out)):
            if fn.startswith('failure-') and fn.endswith('.json'):
                with open(os.path.join(out, fn), encoding='utf-8') as fil:
                    rep = json.load(fil)
                res = mod.check(rep['case'])
                res.labels.append('found-by-atheris')
                ctx.record(rep['case'], res)
    finally:
        shutil.rmtree(out, ignore_errors=True)

# ------------------------------------------------------------------------------------------------
# Jobs (run in worker processes)


def load_known():
    pth = os.path.join(VERIF, 'known_findings.json')
    if not os.path.exists(pth):
        return []
    with open(pth, encoding='utf-8') as fil:
        return json.load(fil).get('findings', [])


def load_mod(pid):
    return importlib.import_module(f'vlib.props.{pid.lower()}')


def run_job(job):
    """ Executed in a worker. job = dict(kind=..., pid=..., tier=..., seed=..., ...) """
    try:
        setup_path()
        mod = load_mod(job['pid'])
        ctx = Ctx(job['pid'], load_known())
        kind = job['kind']
        if kind == 'replay':
            with open(job['path'], encoding='utf-8') as fil:
                rep = json.load(fil)
            res = mod.check(rep['case'])
            res.labels.append('replay')
            ctx.record(rep['case'], res)
            ctx.stats.replayed += 1
            # tag the failure with the replay file for the report
            for fdict in ctx.stats.failures.values():
                fdict['replay_path'] = job['path']
        elif kind == 'hyp':
            hyp_explore(mod, ctx, mod.strategy(job['tier']), job['n'], job['seed'],
                        shrink=getattr(mod, 'HYP_SHRINK', False))
        elif kind == 'corpus':
            for pth in job['paths']:
                with open(os.path.join(VERIF, pth), encoding='utf-8') as fil:
                    case = json.load(fil)['case']
                if hasattr(mod, 'from_corpus'):
                    case = mod.from_corpus(case)
                res = mod.check(case)
                res.labels.append('corpus')
                ctx.record(case, res)
        elif kind == 'custom':
            mod.run_job(job, ctx)
        else:
            raise ValueError(kind)
        return ctx.stats
    except Exception:  # harness error, never a violation
        st = Stats()
        st.harness_errors.append(f"job {job.get('kind')}:{job.get('name', job.get('shard'))}\n"
                                 + traceback.format_exc())
        return st


def default_jobs(mod, pid, tier, seed):
    jobs = []
    budget = getattr(mod, 'BUDGET', None)
    if budget and budget.get(tier):
        n = budget[tier]
        nsh = min(NPROC, max(1, n // getattr(mod, 'MIN_PER_SHARD', 20)))
        for sh in range(nsh):
            jobs.append({'kind': 'hyp', 'pid': pid, 'tier': tier, 'shard': sh,
                         'seed': derive_seed(seed, pid, 'hyp', sh),
                         'n': n // nsh + (1 if sh < n % nsh else 0)})
    corpus = getattr(mod, 'CORPUS', None) or []
    files = []
    for cname in ([corpus] if isinstance(corpus, str) else corpus):
        cdir = os.path.join(VERIF, 'corpus', cname)
        if os.path.isdir(cdir):
            files += sorted(os.path.join('corpus', cname, f) for f in os.listdir(cdir) if f.endswith('.json'))
    if files:
        for i in range(4):
            if files[i::4]:
                jobs.append({'kind': 'corpus', 'pid': pid, 'tier': tier, 'name': f'corpus-{i}', 'paths': files[i::4]})
    if hasattr(mod, 'jobs'):
        for j in mod.jobs(tier, seed):
            j.update({'kind': 'custom', 'pid': pid, 'tier': tier})
            jobs.append(j)
    only = os.environ.get('VERIF_ONLY')   # development aid: run only the jobs whose name contains this text
    if only:
        jobs = [j for j in jobs if only in str(j.get('name', j.get('kind')))]
    return jobs


# ------------------------------------------------------------------------------------------------
# Minimisation (parent process, bounded number of re-evaluations)


def _still_fails(mod, ctx, case, bucket):
    try:
        res = mod.check(case)
    except Exception:
        return False
    return any(f"{f['clause']}|{f['sig']}" == bucket and ctx.is_known(f) is None
               for f in res.failures)


def minimise(mod, ctx, case, bucket, max_evals=120):
    """ Bounded structural minimiser: ddmin over the list-valued fields the module names in
    SHRINK_LISTS (default: rows, ops), then drop parameter leaves. """
    evals = [0]

    t_start = time.time()

    def ok(cand):
        # bounded by count and by a 90 s allowance (only limits how far a failure is minimised)
        if evals[0] >= max_evals or time.time() - t_start > 90:
            return False
        evals[0] += 1
        return _still_fails(mod, ctx, cand, bucket)

    if hasattr(mod, 'minimise'):
        return mod.minimise(case, ok)
    best = json.loads(json.dumps(case))
    for fld in getattr(mod, 'SHRINK_LISTS', ['rows', 'ops']):
        if not isinstance(best.get(fld), list):
            continue
        n = 2
        while len(best[fld]) >= 2 and evals[0] < max_evals:
            items = best[fld]
            size = max(1, len(items) // n)
            reduced = False
            for start in range(0, len(items), size):
                cand = dict(best)
                cand[fld] = items[:start] + items[start + size:]
                if cand[fld] and ok(cand):
                    best = cand
                    n = max(n - 1, 2)
                    reduced = True
                    break
            if not reduced:
                if size == 1:
                    break
                n = min(len(items), n * 2)
    # drop parameter leaves
    if isinstance(best.get('prms'), dict):
        for path in list(_leaf_paths(best['prms'])):
            if evals[0] >= max_evals:
                break
            cand = json.loads(json.dumps(best))
            _del_path(cand['prms'], path)
            if ok(cand):
                best = cand
    return best


def _leaf_paths(dct, pre=()):
    for k, v in dct.items():
        if isinstance(v, dict) and v:
            yield from _leaf_paths(v, pre + (k,))
        else:
            yield pre + (k,)


def _del_path(dct, path):
    stack = [dct]
    for k in path[:-1]:
        stack.append(stack[-1][k])
    del stack[-1][path[-1]]
    for k, d in zip(reversed(path[:-1]), reversed(stack[:-1])):
        if not d[k]:
            del d[k]


# ------------------------------------------------------------------------------------------------


def write_evidence(pid, tier, seed, mod, stats, wall, violations):
    distinct = len(stats.keys) + stats.distinct_extra
    cov = {
        'evaluations': int(stats.evaluations),
        'cases': int(stats.cases),
        'distinct_nontrivial': int(distinct),
        'rule': mod.RULE,
        'samples': stats.samples[:6],
        'labels': dict(sorted(stats.labels.items())),
        'replayed': stats.replayed,
        'known_finding_hits': dict(stats.known_hits),
        'skipped_precondition': dict(stats.skipped),
        'exhaustive': bool(stats.exhaustive) and getattr(mod, 'ALL_EXHAUSTIVE', False),
        'exhaustive_subdomains': stats.exhaustive,
        'notes': stats.notes,
        'engine': getattr(mod, 'ENGINE', 'hypothesis'),
    }
    if getattr(mod, 'COVER_TABLE', None):
        cov['coverage_table'] = {'what': mod.COVER_TABLE, 'cells_reached': len(stats.cover)}
    evid = {'property_id': pid, 'tier': tier, 'seed': int(seed), 'level': 'exploration',
            'coverage': cov, 'assumptions': getattr(mod, 'ASSUMPTIONS', []),
            'wall_s': round(wall, 2), 'violations': int(violations)}
    edir = os.environ.get('VERIF_OUT') or os.path.join(VERIF, 'evidence')
    os.makedirs(edir, exist_ok=True)
    pth = os.path.join(edir, f'{pid}.json')
    with open(pth + '.tmp', 'w', encoding='utf-8') as fil:
        json.dump(evid, fil, indent=1, default=str)
    os.replace(pth + '.tmp', pth)


def main(argv=None):
    par = argparse.ArgumentParser()
    par.add_argument('pid')
    par.add_argument('--tier', default=os.environ.get('VERIF_TIER') or 'quick',
                     choices=['quick', 'thorough'])
    par.add_argument('--replay', default=None)
    par.add_argument('--scale', type=float, default=float(os.environ.get('VERIF_SCALE', '1')),
                     help='multiply the case budgets (development aid)')
    args = par.parse_args(argv)
    pid = args.pid.upper()
    seed = int(os.environ.get('VERIF_SEED', '1') or 1)
    t0 = time.time()

    try:
        setup_path()
        mod = load_mod(pid)
    except Exception:
        print(f'HARNESS-ERROR property={pid} cannot import\n{traceback.format_exc()}')
        return 2
    known = load_known()
    ctx = Ctx(pid, known)

    # --- single replay -------------------------------------------------------------------------
    if args.replay:
        with open(args.replay, encoding='utf-8') as fil:
            rep = json.load(fil)
        try:
            res = mod.check(rep['case'])
        except Exception:
            print(f'HARNESS-ERROR property={pid} replay raised\n{traceback.format_exc()}')
            return 2
        new = ctx.record(rep['case'], res)
        for k in ctx.known:
            if ctx.stats.known_hits.get(k['key']):
                print(f"KNOWN-FINDING: property={pid} {k['what']}")
        if new:
            for f in new:
                print(f"  failed clause={f['clause']} sig={f['sig']} :: {f['detail'][:400]}")
            print(f'VIOLATION property={pid} replay={args.replay}')
            return 1
        print(f'replay ok property={pid} ({args.replay})')
        return 0

    # --- full run ------------------------------------------------------------------------------
    if args.scale != 1 and hasattr(mod, 'BUDGET'):
        mod.BUDGET = {k: max(1, int(v * args.scale)) for k, v in mod.BUDGET.items()}
        os.environ['VERIF_SCALE'] = str(args.scale)
    jobs = []
    rdir = os.path.join(VERIF, 'replays', pid)
    if os.path.isdir(rdir):
        for fn in sorted(os.listdir(rdir)):
            if fn.endswith('.json'):
                jobs.append({'kind': 'replay', 'pid': pid, 'tier': args.tier,
                             'path': os.path.join('replays', pid, fn), 'name': fn})
    jobs += default_jobs(mod, pid, args.tier, seed)

    total = Stats()
    mpctx = mp.get_context('fork')
    try:
        with cf.ProcessPoolExecutor(max_workers=min(NPROC, max(1, len(jobs))),
                                    mp_context=mpctx) as pool:
            for st in pool.map(run_job, jobs, chunksize=1):
                total.merge(st)
    except Exception:
        total.harness_errors.append('worker pool failed\n' + traceback.format_exc())

    if total.harness_errors:
        print(f'HARNESS-ERROR property={pid} ({len(total.harness_errors)} job(s))')
        for err in total.harness_errors[:3]:
            print(err)
        return 2

    # Known findings
    for k in ctx.known:
        if total.known_hits.get(k['key']):
            print(f"KNOWN-FINDING: property={pid} {k['what']} "
                  f"[{total.known_hits[k['key']]} hit(s) excluded]")

    # Unlisted failures -> minimise, write replay, report
    violations = 0
    for bucket, fdict in list(total.failures.items())[:4]:
        violations += 1
        if 'replay_path' in fdict:
            pth = fdict['replay_path']
        else:
            case = fdict['case']
            try:
                if not getattr(mod, 'HYP_SHRINK', False) or getattr(mod, 'ALSO_MINIMISE', False):
                    case = minimise(mod, ctx, case, bucket)
            except Exception:
                pass
            fdir = os.path.join(os.environ['VERIF_OUT'], 'found') if os.environ.get('VERIF_OUT') \
                else os.path.join('replays', pid, 'found')
            os.makedirs(os.path.join(VERIF, fdir), exist_ok=True)
            pth = os.path.join(fdir, f'{digest(case)}.json')
            with open(os.path.join(VERIF, pth), 'w', encoding='utf-8') as fil:
                json.dump({'property': pid, 'origin': 'shrunk by runner', 'bucket': bucket,
                           'failure': fdict['failure'], 'case': case}, fil, indent=1)
        f = fdict['failure']
        print(f"  failed clause={f['clause']} sig={f['sig']} :: {f['detail'][:600]}")
        print(f'VIOLATION property={pid} replay={pth}')
    for bucket in list(total.failures)[4:]:
        print(f'  (also failing, not minimised) {bucket}')
    violations = len(total.failures)

    wall = time.time() - t0
    try:
        write_evidence(pid, args.tier, seed, mod, total, wall, violations)
    except Exception:
        print(f'HARNESS-ERROR property={pid} cannot write evidence\n{traceback.format_exc()}')
        return 2
    distinct = len(total.keys) + total.distinct_extra
    print(f'{pid} tier={args.tier} seed={seed} cases={total.cases} evaluations={total.evaluations} '
          f'distinct_nontrivial={distinct} replayed={total.replayed} '
          f'violations={violations} wall={wall:.1f}s')
    if distinct < 2 and not violations:
        print(f'HARNESS-ERROR property={pid} exploration was vacuous (distinct_nontrivial<2)')
        return 2
    return 1 if violations else 0


if __name__ == '__main__':
    sys.exit(main())
