"""Hypothesis strategies: measurement grids, scenes, row orders, parameter sets.

A generated *case* is a plain json-able dict:
    {'cls': <scene class>, 'rows': [[ceilo, dt, height|None, type], ...], 'prms': {...},
     'gprms': {...} (optional, parameters that can only be set through the global dict)}
Every random choice is a Hypothesis draw. Frames are built by construction so that the documented
screening rules hold (no rejection sampling).
"""
import glob
import math
import os

from hypothesis import strategies as st

NAME_POOL = ['0', '1', '2', '3', '9', '10', 'a', 'aa', 'A', 'b', 'PO', 'Final05', 'ceilo 7',
             'ceilometer-with-a-rather-long-name-0123456789', 'zürich', 'Ω']
CONFUSABLE = ['a', 'aa', 'aaa', '1', '10', '11', '0', '00', '9']
SPANS = [0.5, 60.0, 900.0, 900.0, 900.0, 3600.0, 86400.0]


@st.composite
def permutation(draw, items):
    """ Fisher-Yates with integer draws (st.permutations cannot be driven by fuzz_one_input's byte
    provider in Hypothesis 6.168: it always overruns). """
    out = list(items)
    for i in range(len(out) - 1, 0, -1):
        j = draw(st.integers(0, i))
        out[i], out[j] = out[j], out[i]
    return out


def ints(draw, lo, hi, n):
    return draw(st.lists(st.integers(lo, hi), min_size=n, max_size=n))


# ------------------------------------------------------------------------------------------------
# Measurement grid


@st.composite
def grid(draw, n_ceilos=(1, 4), n_t=(3, 40), names=None, span=None):
    """ -> list of (ceilo, dt) measurements, unique by construction. """
    nc = draw(st.integers(*n_ceilos))
    if names is None:
        pool = CONFUSABLE if draw(st.integers(0, 9)) < 4 else NAME_POOL
        names = draw(st.lists(st.sampled_from(pool), min_size=nc, max_size=nc, unique=True))
    if span is None:
        span = draw(st.sampled_from(SPANS))
    mode = draw(st.sampled_from(['coincident', 'offset', 'unequal', 'irregular']))
    intval = draw(st.booleans())
    out = []
    base_n = draw(st.integers(*n_t))
    base_ticks = None
    for ind, name in enumerate(names):
        n = base_n
        if mode in ('unequal', 'irregular') and ind > 0:
            n = draw(st.integers(*n_t))
        if mode == 'irregular':
            ticks = sorted(draw(st.lists(st.integers(0, 100000), min_size=n, max_size=n,
                                         unique=True)))
            dts = [-span * (1 - t / 100000) for t in ticks]
        else:
            dts = [-span + span * i / n for i in range(1, n + 1)]
            if mode == 'offset':
                dts = [d - ind * span / (3.7 * n) for d in dts]
        if mode == 'coincident':
            if base_ticks is None:
                base_ticks = dts
            dts = base_ticks
        if intval and span >= 60:
            dts = sorted(set(float(round(d)) for d in dts))
        out += [(name, float(d)) for d in dts]
    return out, names, span


# ------------------------------------------------------------------------------------------------
# Turning per-measurement hit lists into rows


def rows_from_hits(meas, hits, vv_flags=None):
    """ meas: list of (ceilo, dt); hits: list (same length) of lists of heights.
    Typed 1..k in ascending height; empty -> non-detection. """
    rows = []
    for ind, ((ceilo, dt), hts) in enumerate(zip(meas, hits)):
        if not hts:
            rows.append([ceilo, dt, None, 0])
        elif len(hts) == 1 and vv_flags is not None and vv_flags[ind]:
            rows.append([ceilo, dt, float(hts[0]), -1])
        else:
            for typ, h in enumerate(sorted(hts)):
                rows.append([ceilo, dt, float(h), typ + 1])
    return rows


@st.composite
def order_rows(draw, rows, orders=('asc', 'asc', 'desc', 'shuffled', 'by_ceilo')):
    how = draw(st.sampled_from(orders))
    if how == 'asc':
        return sorted(rows, key=lambda r: (r[1], r[0], r[3]))
    if how == 'desc':
        return sorted(rows, key=lambda r: (-r[1], r[0], r[3]))
    if how == 'by_ceilo':
        return sorted(rows, key=lambda r: (r[0], r[1], r[3]))
    return list(draw(permutation(rows)))


# ------------------------------------------------------------------------------------------------
# Scene classes


@st.composite
def layer_spec(draw, hmax=90000):
    base = draw(st.one_of(st.integers(0, 12000), st.integers(0, hmax)))
    return {'base': base,
            'thick': draw(st.sampled_from([0, 0, 30, 100, 300, 1000])),
            'res': draw(st.sampled_from([1, 10, 100])),
            'cov': draw(st.sampled_from([3, 10, 30, 50, 70, 90, 100, 100])),
            'trend': draw(st.sampled_from([0, 0, 0, 300, -300, 1500]))}


def layer_height(spec, frac_t, noise):
    """ noise in 0..1000 """
    h = spec['base'] + spec['trend'] * frac_t + spec['thick'] * noise / 1000
    h = round(h / spec['res']) * spec['res']
    return float(min(max(h, 0), 99999))


@st.composite
def scene_layered(draw, max_layers=5, n_t=(3, 40), n_ceilos=(1, 4), lone=True):
    meas, _, span = draw(grid(n_ceilos=n_ceilos, n_t=n_t))
    specs = draw(st.lists(layer_spec(), min_size=0, max_size=max_layers))
    n = len(meas)
    hits = [[] for _ in range(n)]
    for spec in specs:
        pres = ints(draw, 0, 99, n)
        noise = ints(draw, 0, 1000, n)
        for i, (_, dt) in enumerate(meas):
            if pres[i] < spec['cov']:
                h = layer_height(spec, 1 + dt / span if span else 0, noise[i])
                if h not in hits[i]:
                    hits[i].append(h)
    if specs and len(set(m[0] for m in meas)) >= 2 and draw(st.integers(0, 9)) < 3:
        # one instrument never misses the first deck (it has no non-detection), the others do
        always = sorted(set(m[0] for m in meas))[draw(st.integers(0, 1))]
        for i, (c, dt) in enumerate(meas):
            if c == always and not hits[i]:
                hits[i].append(layer_height(specs[0], 1 + dt / span if span else 0, 500))
    if lone:
        for _ in range(draw(st.integers(0, 4))):
            i = draw(st.integers(0, n - 1))
            h = float(draw(st.integers(0, 99999)))
            if h not in hits[i]:
                hits[i].append(h)
    vv_share = draw(st.sampled_from([4, 4, 4, 60, 100]))     # share of single-hit measurements reported as VV
    vv = [v < vv_share for v in ints(draw, 0, 99, n)]
    rows = rows_from_hits(meas, hits, vv)
    return {'cls': 'layered', 'rows': draw(order_rows(rows))}


@st.composite
def scene_exact_counts(draw):
    """ k flat layers at exact evenly-spaced heights, each present in exactly n_i of N
    measurements; realised okta tuples cover every class. """
    nc = draw(st.integers(1, 2))
    N = draw(st.sampled_from([24, 32]))
    names = draw(st.lists(st.sampled_from(NAME_POOL), min_size=nc, max_size=nc, unique=True))
    per = N // nc
    meas = [(nm, -900.0 + 900.0 * i / per + (7.0 * c)) for c, nm in enumerate(names)
            for i in range(1, per + 1)]
    k = draw(st.integers(1, 5))
    h0 = draw(st.sampled_from([0, 100, 250, 1000, 3050, 9000, 9999, 10000, 10001, 20000]))
    spacing = draw(st.sampled_from([1500, 2000, 3000, 5000]))
    hits = [[] for _ in range(N)]
    bases = []
    for lay in range(k):
        h = float(h0 + lay * spacing)
        bases.append(h)
        # target okta class -> count
        cnt = draw(st.one_of(st.integers(0, N), st.sampled_from([1, 2, 3, N - 2, N - 1, N,
                                                                  N // 8, N // 4, N // 2])))
        perm = draw(permutation(range(N)))
        for i in perm[:cnt]:
            hits[i].append(h)
    rows = rows_from_hits(meas, hits)
    return {'cls': 'exact_counts', 'rows': draw(order_rows(rows, ('asc', 'shuffled'))),
            'bases': bases}


@st.composite
def scene_split_candidate(draw):
    """ 2-3 height modes inside what should be one group; >= 30 hits. """
    nc = draw(st.integers(1, 3))
    meas, _, span = draw(grid(n_ceilos=(nc, nc), n_t=(20, 45), span=draw(st.sampled_from(
        [900.0, 900.0, 3600.0]))))
    n = len(meas)
    nmodes = draw(st.integers(2, 3))
    base = draw(st.sampled_from([300, 1000, 2500, 6000, 9700, 12000, 30000]))
    min_sep = draw(st.sampled_from([100, 250, 250, 500, 1000]))
    seps = [draw(st.sampled_from([0.6, 0.9, 1.0, 1.1, 1.3, 1.6, 2.0, 2.0, 3.0, 3.0])) * min_sep
            for _ in range(nmodes - 1)]
    thick = draw(st.sampled_from([0, 20, 60, 120]))
    trend = [draw(st.sampled_from([0, 0, 150, -150, 400, -400])) for _ in range(nmodes)]
    how = draw(st.sampled_from(['simultaneous', 'alternate', 'by_ceilo', 'random']))
    hits = [[] for _ in range(n)]
    centres = [base]
    for s in seps:
        centres.append(centres[-1] + s)
    pick = ints(draw, 0, 99, n)
    noise = [ints(draw, 0, 1000, n) for _ in range(nmodes)]
    cnames = sorted(set(m[0] for m in meas))
    for i, (ceilo, dt) in enumerate(meas):
        ft = 1 + dt / span
        if how == 'simultaneous':
            modes = range(nmodes)
        elif how == 'alternate':
            modes = [i % nmodes]
        elif how == 'by_ceilo':
            modes = [cnames.index(ceilo) % nmodes]
        else:
            modes = [m for m in range(nmodes) if (pick[i] + 37 * m) % 100 < 70]
        for m in modes:
            h = centres[m] + trend[m] * ft + thick * noise[m][i] / 1000
            h = float(max(0, min(99999, round(h))))
            if h not in hits[i]:
                hits[i].append(h)
    far = draw(st.booleans())
    if far:
        fh = float(centres[-1] + draw(st.sampled_from([4000, 8000, 20000])))
        for i in range(0, n, 2):
            hits[i].append(min(fh, 99999.0))
    rows = rows_from_hits(meas, hits)
    case = {'cls': 'split_candidate',
            'rows': draw(order_rows(rows, ('asc', 'desc', 'shuffled', 'by_ceilo')))}
    case['hint'] = {'min_sep': min_sep, 'base': base}
    return case


@st.composite
def scene_merge_chain(draw):
    """ 3-6 flat/thin layers spaced around the min-sep; two ceilometers with an offset. """
    nc = draw(st.integers(1, 3))
    meas, names, span = draw(grid(n_ceilos=(nc, nc), n_t=(8, 30)))
    n = len(meas)
    k = draw(st.integers(3, 6))
    min_sep = draw(st.sampled_from([100, 250, 250, 500]))
    base = draw(st.sampled_from([200, 1500, 4000, 9500, 9900, 15000]))
    centres = [float(base)]
    for _ in range(k - 1):
        centres.append(centres[-1] + round(min_sep * draw(st.sampled_from(
            [0.6, 0.8, 0.9, 1.0, 1.1, 1.4, 2.5]))))
    thick = draw(st.sampled_from([0, 0, 10, 40]))
    coff = {nm: draw(st.sampled_from([0, 0, 20, -20, 60])) for nm in names}
    # which ceilo sees which layer
    sees = {nm: [draw(st.booleans()) or nc == 1 for _ in range(k)] for nm in names}
    hits = [[] for _ in range(n)]
    pres = [ints(draw, 0, 99, n) for _ in range(k)]
    noise = [ints(draw, 0, 1000, n) for _ in range(k)]
    cov = [draw(st.sampled_from([30, 60, 100])) for _ in range(k)]
    for i, (ceilo, _) in enumerate(meas):
        for lay in range(k):
            if sees[ceilo][lay] and pres[lay][i] < cov[lay]:
                h = float(max(0, round(centres[lay] + coff[ceilo] + thick * noise[lay][i] / 1000)))
                if h not in hits[i]:
                    hits[i].append(h)
    rows = rows_from_hits(meas, hits)
    case = {'cls': 'merge_chain', 'rows': draw(order_rows(rows))}
    case['hint'] = {'min_sep': min_sep}
    return case


@st.composite
def scene_bundle_stress(draw):
    """ One thick slice plus single hits just inside its padding. """
    meas, _, span = draw(grid(n_ceilos=(1, 2), n_t=(10, 30)))
    n = len(meas)
    base = draw(st.sampled_from([500, 2000, 5000]))
    thick = draw(st.sampled_from([200, 500, 1000]))
    noise = ints(draw, 0, 1000, n)
    hits = [[float(round(base + thick * noise[i] / 1000))] for i in range(n)]
    pad = draw(st.sampled_from([10, 50, 100, 200, 300]))
    for _ in range(draw(st.integers(1, 4))):
        i = draw(st.integers(0, n - 1))
        frac = draw(st.sampled_from([0.2, 0.5, 0.9, 1.1]))
        side = draw(st.sampled_from([1, -1]))
        h = base + thick + frac * pad / 100 * thick if side > 0 else \
            base - frac * pad / 100 * thick
        h = float(max(0, round(h)))
        if h not in hits[i]:
            hits[i].append(h)
    if draw(st.booleans()):
        # cirrus far above, reported as second hits of some measurements
        for i in range(0, n, draw(st.sampled_from([2, 3, 5]))):
            hits[i].append(float(base + draw(st.sampled_from([6000, 9000]))))
    rows = rows_from_hits(meas, hits)
    case = {'cls': 'bundle_stress', 'rows': draw(order_rows(rows)),
            'prms_hint': {'GROUPING_PRMS': {'height_pad_perc': pad},
                          'SLICING_PRMS': {'distance_threshold': draw(st.sampled_from(
                              [0.005, 0.02, 0.05, 0.2]))}}}
    return case


@st.composite
def scene_many_slices(draw):
    """ >= 102 singleton slices under one splittable bimodal group (id collisions). """
    nsing = draw(st.integers(101, 112))
    lo = draw(st.sampled_from([500, 520]))
    gap = draw(st.sampled_from([120, 130]))
    rows = []
    for i in range(60):
        rows.append(['A', -900.0 + i * 2, float(lo + (gap if i % 2 else 0)), 1])
    for j in range(nsing):
        rows.append(['B', -900.0 + j * 5 + 1, float(2000 + 400 * j), 1])
    for j in draw(st.lists(st.integers(25, nsing - 1), min_size=1, max_size=2, unique=True)):
        # a second singleton deck 200 ft above deck j (above 10000 ft): sliced apart, then merged by the 250 ft
        # separation of the upper bin -> group ids with a gap
        rows.append(['B', -900.0 + j * 5 + 2, float(2000 + 400 * j + 200), 1])
    return {'cls': 'many_slices', 'rows': rows,
            'prms_hint': {'SLICING_PRMS': {'distance_threshold': 0.004},
                          'MIN_SEP_VALS': [60, 250], 'MIN_SEP_LIMS': [10000], 'MAX_HITS_OKTA0': 0}}


@st.composite
def scene_limit_crossing(draw):
    """ Three thin decks A < B < C around a MIN_SEP_LIMS value L: B just below, C just above with more
    hits, A further below. Merging B and C moves the merged base across L (for mid/high percentiles),
    which changes the applicable minimum separation. """
    L = draw(st.sampled_from([3000, 5000, 10000]))
    small = draw(st.sampled_from([200, 300]))
    big = draw(st.sampled_from([1500, 2000, 3000]))
    d_a = draw(st.sampled_from([small + 100, (small + big) // 2, big - 100]))
    e = draw(st.sampled_from([40, 100, 150]))
    f = draw(st.sampled_from([2, 40, 100]))
    nb = draw(st.integers(4, 10))
    nc = nb + draw(st.integers(2, 12))
    na = draw(st.integers(4, 12))
    names = draw(st.lists(st.sampled_from(NAME_POOL), min_size=1, max_size=2, unique=True))
    n = max(na, nb, nc) + 2
    meas = [(nm, -900.0 + 30.0 * i + 3 * k) for k, nm in enumerate(names) for i in range(n)]
    hits = [[] for _ in meas]
    for i in range(len(meas)):
        j = i % n
        if j < na:
            hits[i].append(float(L - e - d_a))
        if j < nb:
            hits[i].append(float(L - e))
        if j < nc:
            hits[i].append(float(L + f))
    rows = rows_from_hits(meas, hits)
    return {'cls': 'limit_crossing', 'rows': draw(order_rows(rows)),
            'prms_hint': {'MIN_SEP_VALS': [small, big], 'MIN_SEP_LIMS': [L],
                          'BASE_LVL_HEIGHT_PERC': draw(st.sampled_from([5, 50, 60, 95])),
                          'SLICING_PRMS': {'distance_threshold': draw(st.sampled_from([0.01, 0.02]))}}}


@st.composite
def scene_double_split(draw):
    """ Two (or three) well separated decks, each made of 2-3 close height modes with >= 30 hits: several
    groups of one chunk get split, some after a 3 -> 2 re-merge of mixture components. """
    n = draw(st.integers(34, 60))
    ndecks = draw(st.integers(2, 3))
    meas = [('a', -900.0 + 900.0 * i / n) for i in range(n)]
    hits = [[] for _ in range(n)]
    base = draw(st.sampled_from([500, 1000, 3000]))
    for d in range(ndecks):
        nmodes = draw(st.integers(2, 3))
        gap = draw(st.sampled_from([120, 200, 260, 300, 400]))
        thick = draw(st.sampled_from([0, 20, 60, 120]))
        noise = ints(draw, 0, 1000, n)
        pick = ints(draw, 0, 99, n)
        for i in range(n):
            m = pick[i] % nmodes
            h = base + d * 6000 + m * gap + thick * noise[i] / 1000
            hits[i].append(float(round(h)))
    rows = rows_from_hits(meas, hits)
    return {'cls': 'double_split', 'rows': draw(order_rows(rows)), 'hint': {'min_sep': draw(st.sampled_from(
        [100, 250, 250, 300]))}}


@st.composite
def scene_tie_split(draw):
    """ Split candidate seen by 2-4 instruments with identical time stamps and per-instrument height offsets:
    every sub-layer holds groups of simultaneous hits of different heights, so that the look-back cut falls
    inside a dt tie (the order of tied hits then matters). """
    nc = draw(st.integers(2, 4))
    names = draw(st.lists(st.sampled_from(NAME_POOL), min_size=nc, max_size=nc, unique=True))
    nt = draw(st.integers(12, 24))
    dts = [-900.0 + 900.0 * i / nt for i in range(1, nt + 1)]
    base = draw(st.sampled_from([500, 1500, 4000]))
    min_sep = draw(st.sampled_from([100, 150, 250]))
    gap = draw(st.sampled_from([300, 450, 600]))
    offs = {nm: draw(st.sampled_from([-30, -12, 7, 25, 40])) for nm in names}
    trend = draw(st.sampled_from([0, 60, -60, 150]))
    meas, hits = [], []
    noise = ints(draw, 5, 60, nc * nt * 2)
    k = 0
    for nm in names:
        for j, dt in enumerate(dts):
            meas.append((nm, dt))
            h1 = base + offs[nm] + trend * j / nt + noise[k]
            h2 = base + gap + offs[nm] - trend * j / nt + noise[k + 1]
            k += 2
            hits.append([float(round(h1)), float(round(h2))])
    rows = rows_from_hits(meas, hits)
    return {'cls': 'tie_split', 'rows': draw(order_rows(rows, ('desc', 'shuffled', 'shuffled', 'by_ceilo', 'asc'))),
            'hint': {'min_sep': min_sep},
            'prms_hint': {'SLICING_PRMS': {'distance_threshold': 0.9}, 'MIN_SEP_VALS': [min_sep, min_sep],
                          'MIN_SEP_LIMS': [10000]}}


@st.composite
def scene_heavy_tail(draw):
    """ One dense deck whose heights have a sharp core and heavy tails (inverse-CDF of a Cauchy / t-like law
    applied to uniform integer draws), quantised; optionally with a compact deck right below. Such shapes
    make a mixture component come out empty now and then (issue #119 path). """
    import math as _m
    n = draw(st.integers(60, 150))
    scale = draw(st.sampled_from([10, 25, 60, 100]))
    res = draw(st.sampled_from([10, 10, 1, 50]))
    power = draw(st.sampled_from([1.0, 0.6]))
    base = draw(st.sampled_from([1500, 3000, 8000]))
    us = ints(draw, 1, 9999, n)
    hs = []
    for u in us:
        t = _m.tan(_m.pi * (u / 10000 - 0.5))
        t = _m.copysign(abs(t) ** power, t)
        h = base + scale * max(-80.0, min(80.0, t))
        hs.append(float(max(0, round(h / res) * res)))
    meas = [('a', -1200.0 + 1200.0 * (i + 0.5) / n) for i in range(n)]
    hits = [[h] for h in hs]
    prms_hint = None
    if draw(st.booleans()):
        for i in range(0, n, 2):
            hits[i].append(float(base - 500 + (us[i] % 7) * 10))
        prms_hint = {'SLICING_PRMS': {'distance_threshold': 1.0}}
    out = {'cls': 'heavy_tail', 'rows': draw(order_rows(rows_from_hits(meas, hits), ('asc', 'asc', 'shuffled')))}
    if prms_hint:
        out['prms_hint'] = prms_hint
    return out


@st.composite
def scene_handover(draw):
    """ 2-4 instruments with identical time stamps; each deck is seen by instrument k only during window k, and
    consecutive windows share their boundary stamp (the last stamp of one instrument in the set is the first
    of the next). Exercises per-instrument counting of simultaneous measurements. """
    nc = draw(st.integers(2, 4))
    names = draw(st.lists(st.sampled_from(CONFUSABLE + NAME_POOL), min_size=nc, max_size=nc, unique=True))
    nt = draw(st.integers(nc * 3, 24))
    dts = [-900.0 + 900.0 * i / nt for i in range(1, nt + 1)]
    ndecks = draw(st.integers(1, 3))
    meas = [(nm, dt) for nm in names for dt in dts]
    hits = [[] for _ in meas]
    for d in range(ndecks):
        base = 800.0 + 2500.0 * d
        order = list(draw(permutation(range(nc))))
        cuts = sorted(draw(st.lists(st.integers(0, nt - 1), min_size=nc - 1, max_size=nc - 1)))
        bounds = [0] + cuts + [nt - 1]
        for w, k in enumerate(order):
            lo, hi = bounds[w], bounds[w + 1]
            for j in range(lo, hi + 1):
                hits[k * nt + j].append(base + (j % 3) * 10)
    rows = rows_from_hits(meas, hits)
    return {'cls': 'handover', 'rows': draw(order_rows(rows))}


@st.composite
def scene_excl_merge(draw):
    """ An excluded instrument A sees three thin decks; the other instrument B contributes only 1-3 stray hits
    just below the lowest deck. The stray hits and the lowest deck get merged; whether the merged base is taken
    from B's few hits or (fall-back: too few of them) from all hits decides if the next deck must be merged too. """
    b = float(draw(st.sampled_from([1000, 3000, 6000])))
    e = draw(st.sampled_from([30, 40, 60]))
    nstray = draw(st.integers(1, 3))
    n = draw(st.integers(12, 24))
    third = b + e + 250 - draw(st.sampled_from([5, e // 2, e - 5]))
    rows = []
    for i in range(n):
        dt = -900.0 + 900.0 * i / n
        rows.append(['A', dt, b + e, 1])
        rows.append(['A', dt, float(third), 2])
        if i < nstray:
            rows.append(['B', dt + 1.0, b, 1])
        else:
            rows.append(['B', dt + 1.0, None, 0])
    return {'cls': 'excl_merge', 'rows': draw(order_rows(rows)),
            'prms_hint': {'EXCLUDE_FOR_BASE_HEIGHT_CALC': ['A'], 'BASE_LVL_HEIGHT_PERC': draw(st.sampled_from([50, 95])),
                          'MIN_SEP_VALS': [250, 1000], 'MIN_SEP_LIMS': [10000],
                          'SLICING_PRMS': {'distance_threshold': 0.02}, 'MAX_HITS_OKTA0': 3}}


DEGENERATE_KINDS = ['higher_types_only', 'higher_types_only', 'single_hit', 'all_nan', 'all_vv', 'two_rows', 'identical', 'two_heights',
                    'one_stamp_3hits', 'identical30', 'one_row_nan', 'two_heights_30', 'zero_height']


@st.composite
def scene_degenerate(draw, kinds=None):
    kind = draw(st.sampled_from(kinds or DEGENERATE_KINDS))
    h = float(draw(st.sampled_from([0, 1, 99, 100, 1000, 9999, 10000, 10001, 50000, 99999])))
    c = draw(st.sampled_from(NAME_POOL))
    n = draw(st.integers(2, 40))
    dts = [-900.0 + 900.0 * i / n for i in range(1, n + 1)]
    if kind == 'single_hit':
        rows = [[c, d, None, 0] for d in dts[:-1]] + [[c, dts[-1], h, 1]]
        i = draw(st.integers(0, len(rows) - 1))
        rows[i], rows[-1] = rows[-1], rows[i]
    elif kind == 'higher_types_only':
        # measurements made of second / third hits only (no first hit: documented as warning-only); with an MSA
        # below them every row is cropped away
        rows = [[c, d, h + 50.0 * (i % 2), 2 + (i % 2)] for i, d in enumerate(dts[:draw(st.integers(1, 6))])]
    elif kind == 'all_nan':
        rows = [[c, d, None, 0] for d in dts]
    elif kind == 'one_row_nan':
        rows = [[c, 0.0, None, 0]]
    elif kind == 'all_vv':
        rows = [[c, d, h + 10 * (i % 3), -1] for i, d in enumerate(dts)]
    elif kind == 'two_rows':
        rows = [[c, -10.0, h, 1], [c, -5.0, h + draw(st.sampled_from([0, 1, 300, 5000])), 1]]
    elif kind == 'identical':
        rows = [[c, d, h, 1] for d in dts]
    elif kind == 'identical30':
        rows = [[c, -900.0 + i * 20, h, 1] for i in range(draw(st.integers(30, 45)))]
    elif kind == 'two_heights':
        d = draw(st.sampled_from([1, 100, 300, 2000]))
        rows = [[c, dd, h + (d if i % 2 else 0), 1] for i, dd in enumerate(dts)]
    elif kind == 'two_heights_30':
        d = draw(st.sampled_from([1, 100, 300, 2000]))
        rows = [[c, -900.0 + i * 20, h + (d if (i * 7) % 3 else 0), 1]
                for i in range(draw(st.integers(30, 45)))]
    elif kind == 'one_stamp_3hits':
        rows = [[c, -1.0, h, 1], [c, -1.0, h + 500, 2], [c, -1.0, h + 1500, 3]]
    else:  # zero_height
        rows = [[c, d, 0.0, 1] for d in dts]
    rows = [[r[0], r[1], None if r[2] is None else min(r[2], 99999.0), r[3]] for r in rows]
    return {'cls': 'degenerate', 'kind': kind, 'rows': rows}


_REF_CACHE = {}


def ref_files():
    pth = os.environ.get('VERIF_REF_DATA', '/repo/test/ampycloud/ref_data')
    return sorted(glob.glob(os.path.join(pth, '*.csv')))


def load_ref(path):
    if path not in _REF_CACHE:
        rows = []
        with open(path, encoding='utf-8') as fil:
            next(fil)
            for line in fil:
                c, dt, h, t = line.rstrip('\n').split(',')
                hv = None if h in ('', 'nan', 'NaN') else float(h)
                rows.append([c, float(dt), hv, int(float(t))])
        _REF_CACHE[path] = rows
    return _REF_CACHE[path]


@st.composite
def scene_ref_window(draw):
    files = ref_files()
    if not files:
        return draw(scene_layered())
    rows = load_ref(draw(st.sampled_from(files)))
    dts = sorted(set(r[1] for r in rows))
    a = draw(st.integers(0, max(0, len(dts) - 5)))
    b = draw(st.integers(a + 4, len(dts)))
    lo, hi = dts[a], dts[min(b, len(dts) - 1)]
    keepc = draw(st.sets(st.sampled_from(sorted(set(r[0] for r in rows))), min_size=1))
    shift = draw(st.sampled_from([0, 0, 50, 1000, 5000]))
    # keep whole measurements (so that the screening rules keep holding)
    out = [[r[0], r[1], None if r[2] is None else float(r[2] + shift), r[3]] for r in rows
           if lo <= r[1] <= hi and r[0] in keepc]
    if not out:
        out = [list(r) for r in rows[:20]]
    return {'cls': 'ref_window', 'rows': out}


SCENES = {
    'layered': scene_layered,
    'exact_counts': scene_exact_counts,
    'split_candidate': scene_split_candidate,
    'merge_chain': scene_merge_chain,
    'bundle_stress': scene_bundle_stress,
    'many_slices': scene_many_slices,
    'degenerate': scene_degenerate,
    'ref_window': scene_ref_window,
    'limit_crossing': scene_limit_crossing,
    'double_split': scene_double_split,
    'tie_split': scene_tie_split,
    'heavy_tail': scene_heavy_tail,
    'handover': scene_handover,
    'excl_merge': scene_excl_merge,
}


def scene(weights):
    """ weights: dict class -> int weight. """
    pool = []
    for cls, w in weights.items():
        pool += [cls] * w
    return st.sampled_from(pool).flatmap(lambda c: SCENES[c]())


# ------------------------------------------------------------------------------------------------
# Documented warning-only anomalies


@st.composite
def with_anomalies(draw, case, negative=True, big=True):
    """ Inject the anomalies that the docs list as warnings only. Keeps the screening rules. """
    rows = [list(r) for r in case['rows']]
    pool = ['t0_height', 'typed_nan', 'missing_lower', 'unordered', 'unordered', 'unordered_all', 'same_type']
    pool += (['negative'] if negative else []) + (['big'] if big else [])
    kinds = draw(st.lists(st.sampled_from(pool), min_size=1, max_size=2, unique=True))
    by_meas = {}
    for i, r in enumerate(rows):
        by_meas.setdefault((r[0], r[1]), []).append(i)
    keys = sorted(by_meas)
    for kind in kinds:
        if kind == 'unordered_all':
            # hit types in descending height order in every multi-hit measurement
            for idx in by_meas.values():
                if len(idx) >= 2 and rows[idx[0]][3] >= 1:
                    types = sorted((rows[i][3] for i in idx), reverse=True)
                    order = sorted(idx, key=lambda i: (rows[i][2] is None, rows[i][2] or 0))
                    for i, t in zip(order, types):
                        rows[i][3] = t
            continue
        key = keys[draw(st.integers(0, len(keys) - 1))]
        idx = by_meas[key]
        if kind == 't0_height' and len(idx) == 1 and rows[idx[0]][3] == 0:
            rows[idx[0]][2] = float(draw(st.integers(0, 20000)))
        elif kind == 'typed_nan' and rows[idx[0]][3] >= 1:
            rows[idx[-1]][2] = None
        elif kind == 'missing_lower' and rows[idx[0]][3] >= 1:
            for i in idx:
                rows[i][3] += 1
        elif kind == 'unordered' and len(idx) >= 2 and rows[idx[0]][3] >= 1:
            rows[idx[0]][3], rows[idx[-1]][3] = rows[idx[-1]][3], rows[idx[0]][3]
        elif kind == 'same_type' and len(idx) >= 2 and rows[idx[0]][3] >= 1 and \
                len(set(rows[i][2] for i in idx)) == len(idx):
            for i in idx:
                rows[i][3] = 1
        elif kind == 'negative' and negative and rows[idx[0]][2] is not None:
            rows[idx[0]][2] = -float(draw(st.integers(1, 500)))
            if len(set((rows[i][2], rows[i][3]) for i in idx)) < len(idx):
                rows[idx[0]][2] -= 0.5
        elif kind == 'big' and rows[idx[0]][2] is not None:
            rows[idx[-1]][2] = float(draw(st.integers(60000, 99999)))
    # final safety: no duplicated rows (would be a refusal, outside this domain)
    seen, out = set(), []
    for r in rows:
        k = (r[0], r[1], r[2], r[3])
        if k not in seen:
            seen.add(k)
            out.append(r)
    new = dict(case)
    new['rows'] = out
    new['anomalies'] = kinds
    return new


# ------------------------------------------------------------------------------------------------
# Parameter sets (per-call route unless stated)


def heights_of(case):
    return sorted(set(r[2] for r in case['rows'] if r[2] is not None))


@st.composite
def msa_prms(draw, case, kinds=None):
    """ MSA (incl. None, 0, exactly a hit height), buffer and okta buffers. """
    out = {}
    hs = heights_of(case)
    kind = draw(st.sampled_from((kinds or ['none', 'athit', 'athit', 'near', 'low', 'high', 'zero', 'free'])
                                if hs else ['none', 'free', 'zero']))
    buf = draw(st.sampled_from([0, 0, 50, 500, 1500, 1500]))
    if kind == 'none':
        msa = None
    elif kind == 'zero':
        msa = 0
    elif kind == 'free':
        msa = draw(st.integers(0, 30000))
    elif kind == 'low':
        msa = max(0, int(hs[0]) - draw(st.sampled_from([1, 100, 2000])))
    elif kind == 'high':
        msa = int(hs[-1]) + draw(st.sampled_from([1, 100, 2000]))
    else:
        h = hs[draw(st.integers(0, len(hs) - 1))]
        if kind == 'athit':
            # limit (= msa + buffer) or msa lands exactly on a hit
            msa = h - buf if draw(st.booleans()) and h - buf >= 0 else h
        else:
            msa = max(0, h + draw(st.sampled_from([-500, -50, -1, 1, 50, 500])))
        if msa == int(msa):
            msa = int(msa)
    out['MSA'] = msa
    out['MSA_HIT_BUFFER'] = buf
    return out


@st.composite
def okta_prms(draw):
    out = {}
    if draw(st.integers(0, 9)) < 6:
        out['MAX_HITS_OKTA0'] = draw(st.sampled_from([0, 0, 1, 2, 3, 5, 10]))
    if draw(st.integers(0, 9)) < 6:
        out['MAX_HOLES_OKTA8'] = draw(st.sampled_from([0, 0, 1, 2, 4, 10]))
    return out


@st.composite
def sep_prms(draw, hint=None):
    """ MIN_SEP_VALS / MIN_SEP_LIMS with 1-4 bins. """
    if draw(st.integers(0, 9)) < 4 and not hint:
        return {}
    nb = draw(st.integers(1, 4))
    lims = sorted(draw(st.lists(st.sampled_from([500, 1000, 3000, 5000, 9800, 10000, 12000, 20000]),
                                min_size=nb - 1, max_size=nb - 1, unique=True)))
    pool = [60, 100, 250, 250, 500, 1000, 2000]
    if hint:
        pool += [hint] * 6
    vals = [draw(st.sampled_from(pool)) for _ in range(nb)]
    return {'MIN_SEP_VALS': vals, 'MIN_SEP_LIMS': lims}


@st.composite
def base_prms(draw, case, exclude=True, p_default=0.3):
    out = {}
    if draw(st.floats(0, 1)) < p_default:
        return out
    out['BASE_LVL_HEIGHT_PERC'] = draw(st.one_of(
        st.sampled_from([0, 5, 5, 10, 50, 95, 100]), st.integers(0, 100),
        st.floats(0, 100, allow_nan=False).map(lambda x: round(x, 3))))
    out['BASE_LVL_LOOKBACK_PERC'] = draw(st.one_of(
        st.sampled_from([100, 50, 30, 10, 75]), st.integers(1, 100),
        st.floats(0.5, 100, allow_nan=False).map(lambda x: round(x, 2))))
    if exclude:
        names = sorted(set(r[0] for r in case['rows']))
        kind = draw(st.sampled_from(['none', 'none', 'some', 'some', 'some', 'all', 'absent']))
        if kind == 'some':
            sub = sorted(draw(st.sets(st.sampled_from(names), min_size=1,
                                      max_size=max(1, len(names) - 1))))
            # sometimes name a longer, absent instrument whose name contains a present one
            if draw(st.integers(0, 9)) < 3:
                sub = [sub[0] + sub[0]] + sub[1:]
            out['EXCLUDE_FOR_BASE_HEIGHT_CALC'] = sub
        elif kind == 'all':
            out['EXCLUDE_FOR_BASE_HEIGHT_CALC'] = list(names)
        elif kind == 'absent':
            out['EXCLUDE_FOR_BASE_HEIGHT_CALC'] = ['not-a-ceilo']
    return out


@st.composite
def lowess_prms(draw):
    if draw(st.booleans()):
        return {}
    return {'LOWESS': {'frac': draw(st.sampled_from([0.001, 0.01, 0.05, 0.1, 0.2, 0.35, 0.5, 0.75, 1.0])),
                       'it': draw(st.integers(0, 6))}}


@st.composite
def algo_prms(draw):
    """ Slicing / grouping / layering leaves over their documented domains. """
    out = {}
    if draw(st.booleans()):
        sl = {}
        if draw(st.booleans()):
            sl['distance_threshold'] = draw(st.sampled_from([0.005, 0.02, 0.05, 0.1, 0.2, 0.5, 2]))
        if draw(st.booleans()):
            sl['dt_scale'] = draw(st.sampled_from([1, 100, 10000, 100000, 1000000]))
        if draw(st.booleans()):
            sl['height_scale_kwargs'] = {'min_range': draw(st.sampled_from(
                [1, 100, 1000, 5000, 20000]))}
        if sl:
            out['SLICING_PRMS'] = sl
    if draw(st.booleans()):
        gr = {}
        if draw(st.booleans()):
            gr['height_pad_perc'] = draw(st.sampled_from([0, 10, 50, 100, 200, 300]))
        if draw(st.booleans()):
            gr['dt_scale'] = draw(st.sampled_from([1, 30, 180, 1000, 100000]))
        if draw(st.booleans()):
            lo = draw(st.sampled_from([1, 50, 100, 300]))
            gr['height_scale_range'] = [lo, lo + draw(st.sampled_from([0, 100, 400, 2000]))]
        if gr:
            out['GROUPING_PRMS'] = gr
    if draw(st.booleans()):
        la = {}
        if draw(st.booleans()):
            la['min_okta_to_split'] = draw(st.integers(0, 8))
        gm = {}
        if draw(st.booleans()):
            gm['scores'] = draw(st.sampled_from(['BIC', 'AIC']))
        if draw(st.booleans()):
            gm['mode'] = draw(st.sampled_from(['delta', 'prob']))
            gm['min_prob'] = draw(st.sampled_from([1.0, 0.9, 0.5, 0.1]))
        if draw(st.booleans()):
            gm['delta_mul_gain'] = draw(st.sampled_from([1.0, 0.95, 0.9, 0.5]))
        if draw(st.booleans()):
            gm['rescale_0_to_x'] = draw(st.sampled_from([None, 1, 100, 10000]))
        if gm:
            la['gmm_kwargs'] = gm
        if la:
            out['LAYERING_PRMS'] = la
    return out


@st.composite
def global_height_mode(draw):
    """ Slicing height modes that need kwargs the per-call route cannot express. """
    kind = draw(st.sampled_from(['shift-and-scale', 'step-scale', 'minmax-plain']))
    if kind == 'shift-and-scale':
        kw = {'scale': draw(st.sampled_from([100, 1000, 10000]))}
        if draw(st.booleans()):
            kw['shift'] = draw(st.sampled_from([0, 1000]))
        return {'SLICING_PRMS': {'height_scale_mode': 'shift-and-scale', 'height_scale_kwargs': kw}}
    if kind == 'step-scale':
        k = draw(st.integers(0, 3))
        steps = sorted(draw(st.lists(st.sampled_from([3000, 8000, 14000, 25000]), min_size=k,
                                     max_size=k, unique=True)))
        scales = [draw(st.sampled_from([100, 500, 1000, 5000])) for _ in range(k + 1)]
        return {'SLICING_PRMS': {'height_scale_mode': 'step-scale',
                                 'height_scale_kwargs': {'steps': steps, 'scales': scales}}}
    # (min_range must stay positive: with no minimum range a constant-height chunk has a zero span, which is
    # outside the scaling's own domain - see C19)
    return {'SLICING_PRMS': {'height_scale_mode': 'minmax-scale',
                             'height_scale_kwargs': {'min_range': draw(st.sampled_from([500, 2000]))}}}


def merge_dict(a, b):
    out = {k: (dict(v) if isinstance(v, dict) else v) for k, v in a.items()}
    for k, v in b.items():
        if isinstance(v, dict) and isinstance(out.get(k), dict):
            out[k] = merge_dict(out[k], v)
        else:
            out[k] = v
    return out


@st.composite
def pipeline_case(draw, weights, vary=('msa', 'okta', 'sep', 'base', 'lowess', 'algo'),
                  anomalies=False, exclude=True, p_default_prms=0.25, global_modes=False,
                  base_p_default=0.3, msa_kinds=None, index_kinds=False, anomaly_negative=True):
    """ A scene plus a parameter set. """
    case = draw(scene(weights))
    if anomalies and draw(st.integers(0, 9)) < 3:
        case = draw(with_anomalies(case, negative=anomaly_negative))
    prms = {}
    if draw(st.floats(0, 1)) >= p_default_prms:
        if 'msa' in vary:
            prms = merge_dict(prms, draw(msa_prms(case, kinds=msa_kinds)))
        if 'okta' in vary:
            prms = merge_dict(prms, draw(okta_prms()))
        if 'sep' in vary:
            hint = (case.get('hint') or {}).get('min_sep')
            prms = merge_dict(prms, draw(sep_prms(hint)))
        if 'base' in vary:
            prms = merge_dict(prms, draw(base_prms(case, exclude=exclude, p_default=base_p_default)))
        if 'lowess' in vary:
            prms = merge_dict(prms, draw(lowess_prms()))
        if 'algo' in vary:
            prms = merge_dict(prms, draw(algo_prms()))
    if case.get('prms_hint'):
        prms = merge_dict(prms, case['prms_hint'])
    elif (case.get('hint') or {}).get('min_sep') and 'MIN_SEP_VALS' not in prms:
        ms = case['hint']['min_sep']
        prms['MIN_SEP_VALS'] = [ms, ms]
    out = {'cls': case['cls'], 'rows': case['rows'], 'prms': prms}
    for k in ('kind', 'anomalies', 'bases', 'hint'):
        if k in case:
            out[k] = case[k]
    if global_modes and draw(st.integers(0, 9)) < 2:
        out['gprms'] = draw(global_height_mode())
    if index_kinds:
        out['index'] = draw(st.sampled_from(INDEX_KINDS))
    return out


@st.composite
def ulp_jitter(draw, case, p=3):
    """ Move some distinct height values to their floating-point neighbours (coding boundaries). """
    if draw(st.integers(0, 9)) >= p:
        return case
    hs = heights_of(case)
    if not hs:
        return case
    chosen = draw(st.lists(st.sampled_from(hs), min_size=1, max_size=3, unique=True))
    mp = {}
    for h in chosen:
        up = draw(st.booleans())
        mp[h] = math.nextafter(h, math.inf if up else -math.inf)
        if mp[h] < 0:
            mp[h] = h
    new = dict(case)
    rows = [[r[0], r[1], mp.get(r[2], r[2]), r[3]] for r in case['rows']]
    # a jittered value may collide with a neighbour only if both were in the frame: re-check dups
    if len(set((r[0], r[1], r[2], r[3]) for r in rows)) == len(rows):
        new['rows'] = rows
        new['ulp'] = True
    return new


# ------------------------------------------------------------------------------------------------
# Nested partial parameter assignments over existing leaves (C11, C12, C13)

LEAF_DOMAINS = {
    ('MSA',): [None, 0, 1200, 3000, 10000, 25000],
    ('MSA_HIT_BUFFER',): [0, 500, 1500, 3000],
    ('MAX_HITS_OKTA0',): [0, 1, 3, 5],
    ('MAX_HOLES_OKTA8',): [0, 1, 4],
    ('BASE_LVL_HEIGHT_PERC',): [0, 5, 50, 95.5],
    ('BASE_LVL_LOOKBACK_PERC',): [100, 50, 20],
    ('EXCLUDE_FOR_BASE_HEIGHT_CALC',): [[], ['a'], ['0', '1'], ['Final05']],
    ('LOWESS', 'frac'): [0.1, 0.35, 0.8],
    ('LOWESS', 'it'): [0, 3, 5],
    ('MIN_SEP',): [([250, 1000], [10000]), ([100], []), ([100, 300, 600], [2000, 8000]), ([500, 500], [5000])],
    ('SLICING_PRMS', 'distance_threshold'): [0.05, 0.2, 0.6],
    ('SLICING_PRMS', 'dt_scale'): [1000, 100000],
    ('SLICING_PRMS', 'height_scale_kwargs', 'min_range'): [100, 1000, 5000],
    ('GROUPING_PRMS', 'height_pad_perc'): [0, 10, 100],
    ('GROUPING_PRMS', 'dt_scale'): [60, 180, 1000],
    ('GROUPING_PRMS', 'height_scale_range'): [[100, 500], [50, 50], [200, 2000]],
    ('LAYERING_PRMS', 'min_okta_to_split'): [0, 2, 5],
    ('LAYERING_PRMS', 'gmm_kwargs', 'scores'): ['BIC', 'AIC'],
    ('LAYERING_PRMS', 'gmm_kwargs', 'mode'): ['delta', 'prob'],
    ('LAYERING_PRMS', 'gmm_kwargs', 'min_prob'): [1.0, 0.5],
    ('LAYERING_PRMS', 'gmm_kwargs', 'delta_mul_gain'): [0.95, 0.8, 1.0],
    ('LAYERING_PRMS', 'gmm_kwargs', 'rescale_0_to_x'): [None, 100, 1000],
}


def set_path(dct, path, val):
    for k in path[:-1]:
        dct = dct.setdefault(k, {})
    dct[path[-1]] = val


@st.composite
def leaf_assignment(draw, min_leaves=0, max_leaves=8):
    """ -> nested partial dict over existing leaves (json-able). """
    paths = draw(st.lists(st.sampled_from(sorted(LEAF_DOMAINS)), min_size=min_leaves, max_size=max_leaves,
                          unique=True))
    out = {}
    for path in paths:
        val = draw(st.sampled_from(LEAF_DOMAINS[path]))
        if path == ('MIN_SEP',):
            out['MIN_SEP_VALS'], out['MIN_SEP_LIMS'] = list(val[0]), list(val[1])
        else:
            set_path(out, path, val if not isinstance(val, list) else list(val))
    return out


UNKNOWN_KEYS = [('FOO',), ('msa',), ('SLICING_PRMS', 'bar'), ('LAYERING_PRMS', 'gmm_kwargs', 'zzz'),
                ('LOWESS', 'Frac'), ('NEW_SECTION', 'a')]


@st.composite
def with_unknown_keys(draw, prms, p=3):
    """ Adds 0-2 unknown keys at various depths. -> (prms, n_unknown) """
    out = {k: (dict(v) if isinstance(v, dict) else v) for k, v in prms.items()}
    n = 0
    if draw(st.integers(0, 9)) < p:
        for path in draw(st.lists(st.sampled_from(UNKNOWN_KEYS), min_size=1, max_size=2, unique=True)):
            import copy as _copy
            out = _copy.deepcopy(out)
            if len(path) == 2 and path[0] == 'NEW_SECTION':
                out['NEW_SECTION'] = {'a': 1}
            else:
                set_path(out, path, draw(st.sampled_from([1, 'x', None])))
            n += 1
    return out, n


# ------------------------------------------------------------------------------------------------
# Index labels of the frame handed to ampycloud (values are untouched)

INDEX_KINDS = ['range'] * 5 + ['nonunique', 'nonunique', 'allzero', 'reversed', 'string']


def apply_index(df, kind):
    import pandas as pd
    n = len(df)
    if kind == 'nonunique':
        cnt, lab = {}, []
        for c in df['ceilo'].tolist():
            lab.append(cnt.get(c, 0))
            cnt[c] = cnt.get(c, 0) + 1
        df.index = pd.Index(lab)
    elif kind == 'allzero':
        df.index = pd.Index([0] * n)
    elif kind == 'reversed':
        df.index = pd.Index(list(range(n))[::-1])
    elif kind == 'string':
        df.index = pd.Index([f'r{i}' for i in range(n)])
    return df
