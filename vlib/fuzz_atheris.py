"""Coverage-guided engine (atheris / libFuzzer) around a property's Hypothesis strategy.

    python -m vlib.fuzz_atheris <ID> --runs N --seed S --out DIR [--seed-corpus K]

The fuzz target is `test.hypothesis.fuzz_one_input` of a @given test whose body is the property's own
`check(case)` (the semantic oracle sits inside the target). ampycloud's Python code is instrumented for
branch coverage. The first case with an unlisted failure is written to DIR/failure-*.json (the saved case is
the reproducible unit; the parent job re-evaluates it through check() and reports it the usual way).
Progress counters are written to DIR/stats.json as the run goes (atexit does not run under atheris).
"""
import argparse
import hashlib
import json
import os
import sys


def main():
    par = argparse.ArgumentParser()
    par.add_argument('pid')
    par.add_argument('--runs', type=int, default=1000)
    par.add_argument('--seed', type=int, default=1)
    par.add_argument('--out', required=True)
    par.add_argument('--seed-corpus', type=int, default=0)
    par.add_argument('--tier', default='thorough')
    args = par.parse_args()
    os.makedirs(args.out, exist_ok=True)
    corpus = os.path.join(args.out, 'corpus')
    os.makedirs(corpus, exist_ok=True)

    from vlib import runner
    sys.path.insert(0, runner.REPO_SRC)
    import atheris
    with atheris.instrument_imports(include=['ampycloud']):
        runner.setup_path()
        import ampycloud  # noqa
        import ampycloud.plots  # noqa
    mod = runner.load_mod(args.pid)
    ctx = runner.Ctx(args.pid.upper(), runner.load_known())

    from hypothesis import HealthCheck, given, settings
    state = {'execs': 0, 'valid': 0, 'failed': False}

    def dump_stats():
        st = ctx.stats
        with open(os.path.join(args.out, 'stats.json.tmp'), 'w', encoding='utf-8') as fil:
            json.dump({'execs': state['execs'], 'cases': st.cases, 'evaluations': st.evaluations,
                       'keys': sorted(st.keys), 'labels': dict(st.labels), 'skipped': dict(st.skipped),
                       'samples': st.samples[:2], 'failed': state['failed']}, fil, default=str)
        os.replace(os.path.join(args.out, 'stats.json.tmp'), os.path.join(args.out, 'stats.json'))

    @settings(database=None, deadline=None, suppress_health_check=list(HealthCheck))
    @given(mod.strategy(args.tier))
    def test(case):
        state['valid'] += 1
        res = mod.check(case)
        new = ctx.record(case, res)
        if state['valid'] % 20 == 0:
            dump_stats()
        if new:
            state['failed'] = True
            name = 'failure-' + runner.digest(case) + '.json'
            with open(os.path.join(args.out, name), 'w', encoding='utf-8') as fil:
                json.dump({'property': args.pid.upper(), 'origin': 'atheris', 'failure': new[0], 'case': case}, fil)
            dump_stats()
            raise AssertionError(f"{new[0]['clause']}|{new[0]['sig']}")

    fuzz_one = test.hypothesis.fuzz_one_input

    # Seed corpus: canonical byte strings of valid cases (deterministic byte streams, no private RNG).
    for k in range(args.seed_corpus):
        blob = b''.join(hashlib.sha256(f'{args.seed}|{k}|{j}'.encode()).digest() for j in range(96))
        try:
            canon = fuzz_one(blob)
        except AssertionError:
            break
        if canon:
            with open(os.path.join(corpus, f'seed-{k:04d}'), 'wb') as fil:
                fil.write(canon)

    def target(data):
        state['execs'] += 1
        fuzz_one(data)

    dump_stats()
    if state['failed']:
        os._exit(0)
    argv = [sys.argv[0], f'-runs={args.runs}', f'-seed={max(1, args.seed % (2 ** 31))}', '-max_len=4096',
            '-len_control=0', '-print_final_stats=0', '-verbosity=0', f'-artifact_prefix={args.out}/', corpus]
    atheris.Setup(argv, target)
    try:
        atheris.Fuzz()
    finally:
        dump_stats()


if __name__ == '__main__':
    main()
