"""Deterministic line-granularity thread scheduler (sys.monitoring, Python >= 3.12).

Only one thread runs at a time (it holds the baton). LINE events are enabled on the code objects of
ampycloud's non-plot modules only; at the drawn global step numbers the baton is passed to another
thread. Everything is a pure function of (code, targets, switch vector): a failing schedule replays.
"""
import sys
import threading
import types

TOOL_IDS = (3, 4, 5)


def ampycloud_code_objects():
    import ampycloud
    mods = [m for name, m in sys.modules.items()
            if name.startswith('ampycloud') and not name.startswith('ampycloud.plots') and m is not None]
    seen, out = set(), []

    def walk(code):
        if id(code) in seen:
            return
        seen.add(id(code))
        out.append(code)
        for const in code.co_consts:
            if isinstance(const, types.CodeType):
                walk(const)

    for mod in mods:
        for obj in list(vars(mod).values()):
            if getattr(obj, '__module__', None) != mod.__name__:
                continue
            if isinstance(obj, types.FunctionType):
                walk(obj.__code__)
                if hasattr(obj, '__wrapped__') and isinstance(obj.__wrapped__, types.FunctionType):
                    walk(obj.__wrapped__.__code__)
            elif isinstance(obj, type):
                for attr in vars(obj).values():
                    fn = attr.fget if isinstance(attr, property) else attr
                    fn = getattr(fn, '__func__', fn)
                    if isinstance(fn, types.FunctionType):
                        walk(fn.__code__)
                        if hasattr(fn, '__wrapped__') and isinstance(fn.__wrapped__, types.FunctionType):
                            walk(fn.__wrapped__.__code__)
    return out


class Scheduler:
    def __init__(self, switches=(), loc_plan=()):
        """ switches: iterable of (global step number, preferred target thread index).
        loc_plan: ordered list of (thread index, (file suffix, function, line), target thread): the next entry
        fires when that thread executes that source line. """
        self.loc_plan = [(int(e[0]), tuple(e[1]), int(e[2]), int(e[3]) if len(e) > 3 else 1) for e in loc_plan]
        self.loc_count = {}
        self.switches = {}
        for step, tgt in switches:
            self.switches.setdefault(int(step), int(tgt))
        self.cv = threading.Condition()
        self.baton = 0
        self.steps = 0
        self.alive = []
        self.idx = {}
        self.errors = {}
        self.switch_log = []
        self.tool = None
        self.first_seen = {}     # (file, function, line) -> global step of its first execution
        self.seen_steps = {}     # (file, function, line) -> global steps of its first executions (up to 12)

    # -- monitoring ------------------------------------------------------------------------------
    def _install(self):
        mon = sys.monitoring
        for tid in TOOL_IDS:
            if mon.get_tool(tid) is None:
                mon.use_tool_id(tid, 'verif-sched')
                self.tool = tid
                break
        if self.tool is None:
            raise RuntimeError('no free sys.monitoring tool id')
        self.codes = ampycloud_code_objects()
        mon.register_callback(self.tool, mon.events.LINE, self._on_line)
        for code in self.codes:
            mon.set_local_events(self.tool, code, mon.events.LINE)

    def _uninstall(self):
        mon = sys.monitoring
        for code in self.codes:
            mon.set_local_events(self.tool, code, 0)
        mon.register_callback(self.tool, mon.events.LINE, None)
        mon.free_tool_id(self.tool)
        self.tool = None

    def _on_line(self, code, line):
        me = self.idx.get(threading.get_ident())
        if me is None:
            return
        with self.cv:
            self.steps += 1
            loc = (code.co_filename, code.co_name, line)
            if loc not in self.first_seen:
                self.first_seen[loc] = self.steps
            lst = self.seen_steps.setdefault(loc, [])
            if len(lst) < 12:
                lst.append(self.steps)
            tgt = self.switches.get(self.steps)
            if tgt is None and self.loc_plan and self.loc_plan[0][0] == me:
                want = self.loc_plan[0][1]
                if (loc[0].split('/ampycloud/')[-1], loc[1], loc[2]) == want:
                    key = (me, want, len(self.loc_plan))
                    self.loc_count[key] = self.loc_count.get(key, 0) + 1
                    if self.loc_count[key] < self.loc_plan[0][3]:
                        return
                    tgt = self.loc_plan.pop(0)[2]
                    if not (0 <= tgt < len(self.alive) and self.alive[tgt] and tgt != me):
                        tgt = None
                    else:
                        self.switch_log.append((self.steps, me, tgt))
                        self.baton = tgt
                        self.cv.notify_all()
                        while self.baton != me:
                            self.cv.wait()
                        return
            if tgt is not None:
                nxt = self._pick(tgt, exclude=me)
                if nxt is not None and nxt != me:
                    self.switch_log.append((self.steps, me, nxt))
                    self.baton = nxt
                    self.cv.notify_all()
                    while self.baton != me:
                        self.cv.wait()

    def _pick(self, tgt, exclude=None):
        cands = [i for i in range(len(self.alive)) if self.alive[i] and i != exclude]
        if not cands:
            return None
        return cands[tgt % len(cands)]

    # -- running ---------------------------------------------------------------------------------
    def run(self, targets):
        """ targets: list of callables; -> list of results (exceptions are stored in self.errors). """
        n = len(targets)
        self.alive = [True] * n
        results = [None] * n

        def body(i):
            with self.cv:
                self.idx[threading.get_ident()] = i
                while self.baton != i:
                    self.cv.wait()
            try:
                results[i] = targets[i]()
            except BaseException as exc:  # noqa
                self.errors[i] = exc
            finally:
                with self.cv:
                    self.alive[i] = False
                    self.idx.pop(threading.get_ident(), None)
                    nxt = self._pick(0)
                    if nxt is not None:
                        self.baton = nxt
                    self.cv.notify_all()

        self._install()
        try:
            threads = [threading.Thread(target=body, args=(i,), daemon=True) for i in range(n)]
            for t in threads:
                t.start()
            for t in threads:
                t.join()
        finally:
            self._uninstall()
        return results
