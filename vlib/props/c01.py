"""C01 - METAR-like message is always well-formed and obeys the ICAO layer selection."""
import math

from hypothesis import strategies as st

from vlib import observe, oracles, strategies as S
from vlib.runner import Result

ID = 'C01'
RULE = ('Cases = generated scene (exact_counts 45%, layered, split_candidate, merge_chain, degenerate, '
        'ref_window) x MSA (None / 0 / exactly a hit height / near / below / above) x MSA_HIT_BUFFER x '
        'MAX_HITS_OKTA0 x MAX_HOLES_OKTA8 x MIN_SEP_*; all three levels (slices, groups, layers) are checked '
        'per case. Oracle = validity predicate on the string (regex, coded heights non-decreasing, 2nd >= SCT, '
        '3rd >= BKN, groups match in order distinct table rows with the same code, okta >= 1 and base < MSA). '
        'Non-trivial = some level has a message of >= 2 groups, or a table row with okta 0, or a row with '
        'base >= MSA, or >= 4 rows with okta >= 1. Distinct by (class, per-level okta-class tuple, MSA-position '
        'pattern, message).')
ASSUMPTIONS = ['hit heights in [0, 1e5) ft as the quantifier states',
               'crashes of run() on valid input are C08\'s business: counted under skipped_precondition here']
BUDGET = {'quick': 900, 'thorough': 40000}
CORPUS = 'pipeline'
COVER_TABLE = ('cells = (okta-class tuple of the layers table with <= 4 rows, classes 0/FEW/SCT/BKN/OVC: 781 tuples) x '
               '(pattern of rows at/above the MSA)')
ENUM_K = {'quick': 3, 'thorough': 4}
CLASS_COUNT = {0: 2, 1: 4, 2: 9, 3: 16, 4: 24}   # hits out of 24 measurements (MAX_HITS_OKTA0=2, MAX_HOLES_OKTA8=0)
WEIGHTS = {'exact_counts': 9, 'layered': 4, 'split_candidate': 2, 'merge_chain': 2, 'degenerate': 1,
           'ref_window': 2}


def strategy(tier):
    return S.pipeline_case(WEIGHTS, vary=('msa', 'okta', 'sep'), p_default_prms=0.1, anomalies=True,
                           anomaly_negative=False)


def enum_case(classes, msa):
    """ k flat layers 2000 ft apart with exactly the hit counts of the wanted okta classes. """
    meas = [('a', -900.0 + 30.0 * i) for i in range(24)]
    hits = [[] for _ in range(24)]
    for j, cls in enumerate(classes):
        # spread the hits of a layer evenly over the measurements
        n = CLASS_COUNT[cls]
        for i in range(n):
            hits[(i * 24 // n + j) % 24].append(1000.0 + 2000.0 * j)
    return {'cls': 'enum', 'rows': S.rows_from_hits(meas, hits), 'classes': list(classes),
            'prms': {'MAX_HITS_OKTA0': 2, 'MAX_HOLES_OKTA8': 0, 'MSA': msa, 'MSA_HIT_BUFFER': 0,
                     'MIN_SEP_VALS': [250, 1000]}}


OKTA_COUNT = {0: 2, 1: 3, 2: 6, 3: 9, 4: 12, 5: 15, 6: 18, 7: 21, 8: 24}   # hits out of 24 (MAX_HITS_OKTA0=2)


def enum_case_oktas(oktas, msa):
    """ k flat layers 2000 ft apart realising exactly the given okta values. """
    meas = [('a', -900.0 + 30.0 * i) for i in range(24)]
    hits = [[] for _ in range(24)]
    for j, okta in enumerate(oktas):
        n = OKTA_COUNT[okta]
        for i in range(n):
            hits[(i * 24 // n + j) % 24].append(1000.0 + 2000.0 * j)
    return {'cls': 'enum', 'rows': S.rows_from_hits(meas, hits), 'oktas': list(oktas),
            'prms': {'MAX_HITS_OKTA0': 2, 'MAX_HOLES_OKTA8': 0, 'MSA': msa, 'MSA_HIT_BUFFER': 0,
                     'MIN_SEP_VALS': [250, 1000]}}


def enum_msas(k):
    out = [None, 500]
    for j in range(k):
        out += [1000 + 2000 * j, 2000 + 2000 * j]
    return out


def jobs(tier, seed, kmax=None):
    import itertools
    out = []
    for k in range(1, (kmax or ENUM_K[tier]) + 1):
        for first in range(5):
            out.append({'name': f'enum-k{k}-{first}', 'k': k, 'first': first, 'what': 'classes'})
    for k in range(1, 4):
        for first in range(9):
            out.append({'name': f'oktas-k{k}-{first}', 'k': k, 'first': first, 'what': 'oktas'})
    return out


def run_job(job, ctx):
    import itertools
    k = job['k']
    n_bad = 0
    if job['what'] == 'oktas':
        # all okta *value* tuples (0..8) of up to three stacked layers, without MSA and with the MSA at the top base
        for rest in itertools.product(range(9), repeat=k - 1):
            for msa in (None, 1000 + 2000 * (k - 1)):
                case = enum_case_oktas((job['first'],) + rest, msa)
                ctx.record(case, check(case))
        if k == 1:
            # the same single deck reported as Vertical Visibility hits, sitting exactly at / inside the buffer above
            # the MSA
            for msa, buf in ((1000, 0), (1000, 1500), (600, 1500), (None, 1500)):
                case = enum_case_oktas((job['first'],), msa)
                case['prms']['MSA_HIT_BUFFER'] = buf
                case['rows'] = [[r[0], r[1], r[2], -1 if r[3] == 1 else r[3]] for r in case['rows']]
                ctx.record(case, check(case))
        if job['first'] == 8:
            ctx.stats.exhaustive.append(f'all okta value tuples (0..8) of {k} stacked flat layers x MSA None / at the top base')
        return
    for rest in itertools.product(range(5), repeat=k - 1):
        classes = (job['first'],) + rest
        for msa in enum_msas(k):
            case = enum_case(classes, msa)
            res = check(case)
            if res.sample and 'realised' in res.sample and res.sample['realised'] != list(classes) and msa is None:
                n_bad += 1
            ctx.record(case, res)
    if n_bad:
        ctx.stats.notes.append(f'{n_bad} enumerated scenes did not realise the intended okta classes')
    if job['first'] == 4:
        ctx.stats.exhaustive.append(f'all okta-class tuples (0/FEW/SCT/BKN/OVC) of {k} stacked flat layers x MSA None / below '
                                    'all / exactly at each base / between the layers / above all')


def okta_class(o):
    return 0 if o == 0 else 1 if o <= 2 else 2 if o <= 4 else 3 if o <= 7 else 4


def check_message(msg, table, msa, res, which):
    """ The C01 validity predicate. table: list of dict rows in table order. """
    msa_val = math.inf if msa is None else msa
    if not isinstance(msg, str) or not oracles.MSG_RE.match(msg):
        res.fail('format', f'malformed message ({which})', f'{msg!r}')
        return
    if msg in ('NCD', 'NSC'):
        return
    groups = msg.split(' ')
    coded = [int(g[3:]) for g in groups]
    if any(b < a for a, b in zip(coded, coded[1:])):
        res.fail('order', f'coded heights decrease ({which})', msg)
    if len(groups) >= 2 and oracles.RANK[groups[1][:3]] < 2:
        res.fail('icao', f'second group below SCT ({which})', msg)
    if len(groups) >= 3 and oracles.RANK[groups[2][:3]] < 3:
        res.fail('icao', f'third group below BKN ({which})', msg)
    # in-order match onto distinct table rows with okta >= 1 and base < MSA
    pos = 0
    for g in groups:
        while pos < len(table) and not (table[pos]['code'] == g and table[pos]['okta'] >= 1 and
                                        table[pos]['height_base'] < msa_val):
            pos += 1
        if pos == len(table):
            # say why
            cands = [r for r in table if r['code'] == g]
            if not cands:
                why = 'group matches no table row'
            elif all(r['okta'] < 1 for r in cands):
                why = 'group stands for a zero-okta layer'
            elif all(r['height_base'] >= msa_val for r in cands if r['okta'] >= 1):
                why = 'group stands for a layer at/above the MSA'
            else:
                why = 'groups not an in-order selection of distinct rows'
            res.fail('selection', f'{why} ({which})', f'msg={msg} msa={msa} table='
                     f"{[(r['code'], r['okta'], r['height_base']) for r in table]}")
            return
        pos += 1


def check(case):
    res = Result()
    res.labels = [case['cls']]
    if any(r[2] is not None and not 0 <= r[2] < 100000 for r in case['rows']):
        res.skipped = 'hit heights outside [0, 1e5) ft (outside the quantifier; reached through the shared corpus)'
        return res
    try:
        chunk = observe.run_case(case)
    except Exception as exc:  # C08's domain
        res.skipped = 'run crashed: ' + observe.crash_sig(exc)
        return res
    msa = chunk.msa
    msa_val = math.inf if msa is None else msa
    key = [case['cls']]
    for which in ('slices', 'groups', 'layers'):
        table = observe.table_rows(getattr(chunk, which))
        try:
            msg = chunk.metar_msg(which)
        except Exception as exc:
            res.skipped = 'metar_msg crashed: ' + observe.crash_sig(exc)
            return res
        check_message(msg, table, msa, res, which)
        nsig = sum(1 for r in table if r['okta'] >= 1)
        if (msg.count(' ') >= 1 or any(r['okta'] == 0 for r in table) or nsig >= 4 or
                any(r['height_base'] >= msa_val for r in table)):
            res.nontrivial = True
        key.append([tuple(okta_class(r['okta']) for r in table),
                    tuple(r['height_base'] >= msa_val for r in table), msg])
        if which == 'layers':
            res.labels.append('msg:' + ('NCD' if msg == 'NCD' else 'NSC' if msg == 'NSC'
                                        else f'{msg.count(" ") + 1}grp'))
            if msa is not None and any(r['height_base'] == msa for r in table):
                res.labels.append('base==MSA')
            if len(table) <= 4:
                res.cover.append(f"{tuple(okta_class(r['okta']) for r in table)}|"
                                 f"{tuple(int(r['height_base'] >= msa_val) for r in table)}")
            res.sample = {'cls': case['cls'], 'n_rows': len(case['rows']), 'prms': case['prms'],
                          'realised': [okta_class(r['okta']) for r in table],
                          'layers': [(r['code'], r['okta'], r['height_base']) for r in table],
                          'msg': msg}
    res.key = key
    res.evals = 1
    return res
