"""C01 - METAR-like message is always well-formed and obeys the ICAO layer selection."""
import math

from hypothesis import strategies as st

from vlib import observe, oracles, strategies as S
from vlib.runner import Result

ID = 'C01'
RULE = ('Cases = generated scene (exact_counts 45%, layered, split_candidate, merge_chain, degenerate, '
        'ref_window) x MSA (None / 0 / exactly a hit height / near / below / above) x MSA_HIT_BUFFER x '
        'MAX_HITS_OKTA0 x MAX_HOLES_OKTA8 x MIN_SEP_*; all three levels (slices, groups, layers) are checked '
        'per case. Oracle = validity predicate on the string (regex, coded heights non-decreasing, 2nd >= SCT, '
        '3rd >= BKN, groups match in order distinct table rows with the same code, okta >= 1 and base < MSA). '
        'Non-trivial = some level has a message of >= 2 groups, or a table row with okta 0, or a row with '
        'base >= MSA, or >= 4 rows with okta >= 1. Distinct by (class, per-level okta-class tuple, MSA-position '
        'pattern, message).')
ASSUMPTIONS = ['hit heights in [0, 1e5) ft as the quantifier states',
               'crashes of run() on valid input are C08\'s business: counted under skipped_precondition here']
BUDGET = {'quick': 1300, 'thorough': 40000}
WEIGHTS = {'exact_counts': 9, 'layered': 4, 'split_candidate': 2, 'merge_chain': 2, 'degenerate': 1,
           'ref_window': 2}


def strategy(tier):
    return S.pipeline_case(WEIGHTS, vary=('msa', 'okta', 'sep'), p_default_prms=0.1)


def okta_class(o):
    return 0 if o == 0 else 1 if o <= 2 else 2 if o <= 4 else 3 if o <= 7 else 4


def check_message(msg, table, msa, res, which):
    """ The C01 validity predicate. table: list of dict rows in table order. """
    msa_val = math.inf if msa is None else msa
    if not isinstance(msg, str) or not oracles.MSG_RE.match(msg):
        res.fail('format', f'malformed message ({which})', f'{msg!r}')
        return
    if msg in ('NCD', 'NSC'):
        return
    groups = msg.split(' ')
    coded = [int(g[3:]) for g in groups]
    if any(b < a for a, b in zip(coded, coded[1:])):
        res.fail('order', f'coded heights decrease ({which})', msg)
    if len(groups) >= 2 and oracles.RANK[groups[1][:3]] < 2:
        res.fail('icao', f'second group below SCT ({which})', msg)
    if len(groups) >= 3 and oracles.RANK[groups[2][:3]] < 3:
        res.fail('icao', f'third group below BKN ({which})', msg)
    # in-order match onto distinct table rows with okta >= 1 and base < MSA
    pos = 0
    for g in groups:
        while pos < len(table) and not (table[pos]['code'] == g and table[pos]['okta'] >= 1 and
                                        table[pos]['height_base'] < msa_val):
            pos += 1
        if pos == len(table):
            # say why
            cands = [r for r in table if r['code'] == g]
            if not cands:
                why = 'group matches no table row'
            elif all(r['okta'] < 1 for r in cands):
                why = 'group stands for a zero-okta layer'
            elif all(r['height_base'] >= msa_val for r in cands if r['okta'] >= 1):
                why = 'group stands for a layer at/above the MSA'
            else:
                why = 'groups not an in-order selection of distinct rows'
            res.fail('selection', f'{why} ({which})', f'msg={msg} msa={msa} table='
                     f"{[(r['code'], r['okta'], r['height_base']) for r in table]}")
            return
        pos += 1


def check(case):
    res = Result()
    res.labels = [case['cls']]
    try:
        chunk = observe.run_case(case)
    except Exception as exc:  # C08's domain
        res.skipped = 'run crashed: ' + observe.crash_sig(exc)
        return res
    msa = chunk.msa
    msa_val = math.inf if msa is None else msa
    key = [case['cls']]
    for which in ('slices', 'groups', 'layers'):
        table = observe.table_rows(getattr(chunk, which))
        try:
            msg = chunk.metar_msg(which)
        except Exception as exc:
            res.skipped = 'metar_msg crashed: ' + observe.crash_sig(exc)
            return res
        check_message(msg, table, msa, res, which)
        nsig = sum(1 for r in table if r['okta'] >= 1)
        if (msg.count(' ') >= 1 or any(r['okta'] == 0 for r in table) or nsig >= 4 or
                any(r['height_base'] >= msa_val for r in table)):
            res.nontrivial = True
        key.append([tuple(okta_class(r['okta']) for r in table),
                    tuple(r['height_base'] >= msa_val for r in table), msg])
        if which == 'layers':
            res.labels.append('msg:' + ('NCD' if msg == 'NCD' else 'NSC' if msg == 'NSC'
                                        else f'{msg.count(" ") + 1}grp'))
            if msa is not None and any(r['height_base'] == msa for r in table):
                res.labels.append('base==MSA')
            res.sample = {'cls': case['cls'], 'n_rows': len(case['rows']), 'prms': case['prms'],
                          'layers': [(r['code'], r['okta'], r['height_base']) for r in table],
                          'msg': msg}
    res.key = key
    res.evals = 1
    return res
