"""C08 - valid input never crashes the chain; failures are AmpycloudError only."""
import copy
import datetime

from hypothesis import strategies as st

from vlib import observe, oracles, strategies as S
from vlib.runner import Result

ID = 'C08'
RULE = ('Valid domain (85%): every scene class (layered, split_candidate, merge_chain, bundle_stress, degenerate, '
        'exact_counts, ref_window) with the documented warning-only anomalies injected (type 0 with a height, typed '
        'hit with NaN, missing lower types, types out of height order, repeated type, negative and > 60000 ft '
        'heights), 1..400 rows, sub-second to day-long spans x all parameter leaves varied simultaneously over their '
        'documented domains (MSA, buffers, percentiles, look-back, exclusion, LOWESS frac down to 0.001, MIN_SEP bins, '
        'slicing / grouping / layering leaves, the shift-and-scale and step-scale slicing height modes via the global '
        'dict) x geoloc / ref_dt (None, str, datetime). Oracle: run() returns a CeiloChunk and metar_msg(which) a str '
        'for the three levels; any exception is a failure, bucketed by (exception type, innermost ampycloud frame). '
        'Stage sequences (30%): instead of run(), 2-8 stage / query calls in any order on one chunk; every call must return or raise AmpycloudError. Refusal domain (10%): frames the screening model rejects (duplicated row, type 0 + hit, VV + hit, missing '
        'column, empty, not a DataFrame) and out-of-order stage calls. Oracle: AmpycloudError and nothing else. '
        'Non-trivial = >= 2 non-default parameter leaves, or a class other than layered, or a refusal. Distinct by '
        '(class/kind, n_slices/n_groups/n_layers/ncomp pattern, set of non-default leaves, anomalies).')
ENGINE = 'hypothesis (16 shards) + atheris/libFuzzer driving the same strategy through fuzz_one_input with ampycloud instrumented for coverage'
ASSUMPTIONS = ['"documented meaning" of a parameter leaf = the domains listed in DESIGN.md section 3',
               'exceptions raised for bad *parameter values* (unknown mode names etc.) are not part of the enforced '
               'refusal domain: the statement restricts the AmpycloudError-only clause to data and call-order problems']
BUDGET = {'quick': 1800, 'thorough': 40000}
CORPUS = 'pipeline'
WEIGHTS = {'layered': 8, 'split_candidate': 4, 'double_split': 2, 'merge_chain': 3, 'bundle_stress': 4, 'degenerate': 3,
           'exact_counts': 1, 'ref_window': 2}
REFUSALS = ['dup_row', 'type0_mix', 'vv_mix', 'missing_col', 'empty', 'not_df', 'order_groups', 'order_layers',
            'order_msg', 'order_metarize', 'order_layers_after_slices']


@st.composite
def strategy_(draw):
    case = draw(S.pipeline_case(WEIGHTS, anomalies=True, global_modes=True, p_default_prms=0.1,
                                index_kinds=True))
    case['geoloc'] = draw(st.sampled_from([None, 'Somewhere', '', 'Zürich_#1 50%']))
    case['ref_dt'] = draw(st.sampled_from([None, '2024-01-01 00:00:00', 'datetime', 'whatever']))
    if draw(st.integers(0, 99)) < 30:
        # instead of run(): an arbitrary sequence of stage / query calls on one chunk
        case['ops'] = draw(st.lists(st.sampled_from(['S', 'G', 'L', 'Ms', 'Mg', 'Ml', 'Qs', 'Qg', 'Ql', 'S', 'G', 'L']),
                                    min_size=2, max_size=8))
    elif draw(st.integers(0, 99)) < 15:
        case['refusal'] = draw(st.sampled_from(REFUSALS))
        if case['refusal'] in ('dup_row', 'type0_mix', 'vv_mix'):
            case['at'] = draw(st.integers(0, len(case['rows']) - 1))
        if case['refusal'] == 'missing_col':
            case['col'] = draw(st.sampled_from(['ceilo', 'dt', 'height', 'type']))
    return case


def strategy(tier):
    return strategy_()


ATHERIS = {'quick': (2, 60), 'thorough': (16, 1500)}   # (instances, libFuzzer runs per instance)


def jobs(tier, seed):
    from vlib import runner
    n, runs = ATHERIS[tier]
    return [{'name': f'atheris-{i}', 'runs': runs, 'seed': runner.derive_seed(seed, ID, 'atheris', i) % (2 ** 31)}
            for i in range(n)]


def run_job(job, ctx):
    import sys
    from vlib import runner
    runner.atheris_explore(sys.modules[__name__], ctx, ID, job['runs'], job['seed'], job['tier'])


def leaves(prms, pre=''):
    out = []
    for k, v in (prms or {}).items():
        if isinstance(v, dict):
            out += leaves(v, pre + k + '.')
        else:
            out.append(pre + k)
    return out


def run_refusal(case, res):
    import ampycloud
    from ampycloud.errors import AmpycloudError
    from ampycloud.data import CeiloChunk
    kind = case['refusal']
    rows = [list(r) for r in case['rows']]
    frame = None
    if kind in ('dup_row', 'type0_mix', 'vv_mix'):
        r = rows[case['at'] % len(rows)]
        if kind == 'dup_row':
            rows.append(list(r))
        elif kind == 'type0_mix':
            if r[3] == 0:
                rows.append([r[0], r[1], 1234.0, 1])
            else:
                rows.append([r[0], r[1], None, 0])
        else:
            if r[3] == -1:
                rows.append([r[0], r[1], 1234.5, 1])
            else:
                rows.append([r[0], r[1], 1234.5, -1])
        assert oracles.screening_model(rows) is not None
        frame = observe.build_frame(rows)
    elif kind == 'missing_col':
        frame = observe.build_frame(rows).drop(columns=[case['col']])
    elif kind == 'empty':
        frame = observe.build_frame(rows).iloc[0:0]
    elif kind == 'not_df':
        frame = rows
    try:
        with observe.GlobalPrms(case.get('gprms')):
            if frame is not None:
                ampycloud.run(frame, prms=copy.deepcopy(case['prms']))
                res.fail('refusal', f'illegal input accepted ({kind})', '')
            else:
                chunk = CeiloChunk(observe.build_frame(rows), prms=copy.deepcopy(case['prms']))
                if kind == 'order_groups':
                    chunk.find_groups()
                elif kind == 'order_layers':
                    chunk.find_layers()
                elif kind == 'order_layers_after_slices':
                    chunk.find_slices()
                    chunk.find_layers()
                elif kind == 'order_msg':
                    chunk.metar_msg()
                elif kind == 'order_metarize':
                    chunk.metarize('groups')
                res.fail('refusal', f'out-of-order call accepted ({kind})', '')
    except AmpycloudError:
        pass
    except Exception as exc:
        res.fail('refusal-type', f'{kind}: {observe.crash_sig(exc)}', repr(exc))


def check_ops(case, res):
    """ Any order of stage calls on a valid chunk: every call returns or raises AmpycloudError. """
    from ampycloud.data import CeiloChunk
    from ampycloud.errors import AmpycloudError
    which = {'s': 'slices', 'g': 'groups', 'l': 'layers'}
    done = []
    try:
        with observe.GlobalPrms(case.get('gprms')):
            frame = S.apply_index(observe.build_frame(case['rows']), case.get('index', 'range'))
            chunk = CeiloChunk(frame, prms=copy.deepcopy(case['prms']))
            for op in case['ops']:
                done.append(op)
                try:
                    if op == 'S':
                        chunk.find_slices()
                    elif op == 'G':
                        chunk.find_groups()
                    elif op == 'L':
                        chunk.find_layers()
                    elif op[0] == 'M':
                        chunk.metarize(which[op[1]])
                    else:
                        out = chunk.metar_msg(which[op[1]])
                        if not isinstance(out, str):
                            res.fail('return', 'metar_msg did not return a str', repr(out))
                except AmpycloudError:
                    pass
    except Exception as exc:
        res.fail('crash', f'stage sequence: {observe.crash_sig(exc)}', f"after {','.join(done)}: {exc!r}"[:300])
    res.nontrivial = True
    res.labels.append('stage-sequence')
    res.key = [case['cls'], 'ops', case['ops'], sorted(leaves(case['prms']))]
    res.sample = {'cls': case['cls'], 'n_rows': len(case['rows']), 'prms': case['prms'], 'ops': case['ops']}
    return res


def check(case):
    res = Result()
    res.labels = [case['cls']]
    if case.get('refusal'):
        run_refusal(case, res)
        res.nontrivial = True
        res.key = ['refusal', case['refusal'], case['cls'], case.get('col')]
        res.labels.append('refusal:' + case['refusal'])
        res.sample = {'refusal': case['refusal'], 'cls': case['cls'], 'n_rows': len(case['rows'])}
        return res
    if case.get('ops'):
        return check_ops(case, res)
    import ampycloud
    ref_dt = case.get('ref_dt')
    if ref_dt == 'datetime':
        ref_dt = datetime.datetime(2024, 5, 17, 12, 0, 0)
    shape = None
    try:
        with observe.GlobalPrms(case.get('gprms')):
            frame = S.apply_index(observe.build_frame(case['rows']), case.get('index', 'range'))
            chunk = ampycloud.run(frame, prms=copy.deepcopy(case['prms']),
                                  geoloc=case.get('geoloc'), ref_dt=ref_dt)
        if type(chunk).__name__ != 'CeiloChunk':
            res.fail('return', 'run() did not return a CeiloChunk', type(chunk).__name__)
        for which in ('slices', 'groups', 'layers'):
            msg = chunk.metar_msg(which)
            if not isinstance(msg, str):
                res.fail('return', f'metar_msg({which}) did not return a str', repr(msg))
        shape = [chunk.n_slices, chunk.n_groups, chunk.n_layers,
                 sorted(int(v) for v in chunk.groups['ncomp'].tolist())]
    except Exception as exc:
        res.fail('crash', observe.crash_sig(exc), repr(exc)[:300])
    lv = sorted(leaves(case['prms']) + ['g:' + x for x in leaves(case.get('gprms'))])
    res.nontrivial = len(lv) >= 2 or case['cls'] != 'layered'
    res.key = [case['cls'], case.get('kind'), shape, lv, case.get('anomalies')]
    if case.get('anomalies'):
        res.labels += ['anomaly:' + a for a in case['anomalies']]
    if case.get('index', 'range') != 'range':
        res.labels.append('index:' + case['index'])
    if case.get('gprms'):
        res.labels.append('mode:' + case['gprms']['SLICING_PRMS']['height_scale_mode'])
    if shape and any(k >= 1 for k in shape[3]):
        res.labels.append('gmm-engaged')
    res.sample = {'cls': case['cls'], 'n_rows': len(case['rows']), 'prms': case['prms'],
                  'gprms': case.get('gprms'), 'anomalies': case.get('anomalies'), 'shape': shape}
    return res
