"""C15 - input screening rejects exactly the documented conditions, normalises the rest."""
import copy
import math
import warnings

import numpy as np
import pandas as pd
from hypothesis import strategies as st

from vlib import observe, oracles, strategies as S
from vlib.runner import Result

ID = 'C15'
RULE = ('Cases = small valid frames (1-3 instruments, 1-8 stamps, 0-3 layers, VV hits, documented warning-only anomalies) '
        'with any combination of 0-3 injected defects: dropped column, duplicated row (exact; equal only after coercion: '
        '-0.0 vs 0.0, "1" vs "1.0" strings; repeated non-detection), non-detection added to a measurement with hits on '
        'the same instrument (illegal) or on another instrument at the same time (legal near-miss), VV added to a typed '
        'measurement on the same / another instrument, empty frame, not a DataFrame (list, dict, Series, ndarray, None); x '
        'coercible dtype variants (ceilo as object / int objects / str; dt, height as int, float32, str, object; type as '
        'int8, float, str, Int64) x extra columns x column permutations x arbitrary index labels and index names (incl. an index named like a column, as set_index(..., drop=False) leaves it). Oracle: AmpycloudError <=> the '
        'pure-Python screening model calls the coerced rows illegal (both directions; any other exception type is a '
        'failure); otherwise the result is a new object with exactly the four columns, the dtypes of '
        'hardcoded.REQ_DATA_COLS and values equal to the coerced rows positionally; the argument is deep-equal to its '
        'pre-call copy; check(check(x)) equals check(x) and emits no column/dtype warning; frames derived from a checked output by pandas operations and then made illegal (duplicated row, type 0 + hit, VV + hit) are still refused; CeiloChunk(x) agrees on '
        'accept/refuse. Non-trivial = >= 1 injected defect or near-miss or a dtype/layout variant. Distinct by (defect '
        'kinds, dtype kinds, layout).')
ENGINE = 'hypothesis (16 shards) + atheris/libFuzzer driving the same strategy through fuzz_one_input with ampycloud instrumented for coverage'
ASSUMPTIONS = ['rows equal on the four columns but differing in an extra column are not generated (undecided by the statement)',
               'only coercible dtype variants are generated, as the quantifier says']
BUDGET = {'quick': 6000, 'thorough': 200000}
HYP_SHRINK = True
MIN_PER_SHARD = 100
DEFECTS = ['drop_col', 'dup_exact', 'dup_negzero', 'dup_nd', 'dup_str', 'nd_same', 'nd_other', 'vv_same', 'vv_other',
           'empty', 'not_df']


@st.composite
def strategy_(draw):
    base = draw(st.one_of(S.scene_layered(max_layers=3, n_t=(1, 8), n_ceilos=(1, 3)),
                          S.scene_degenerate(kinds=['single_hit', 'all_nan', 'all_vv', 'two_rows', 'one_stamp_3hits',
                                                    'one_row_nan', 'zero_height'])))
    if draw(st.integers(0, 9)) < 3:
        base = draw(S.with_anomalies(base))
    rows = base['rows'][:40]
    nd = draw(st.sampled_from([0, 0, 1, 1, 1, 2, 3]))
    defects = []
    for _ in range(nd):
        kind = draw(st.sampled_from(DEFECTS))
        d = {'kind': kind, 'at': draw(st.integers(0, 10 ** 6))}
        if kind == 'drop_col':
            d['col'] = draw(st.sampled_from(['ceilo', 'dt', 'height', 'type']))
        if kind == 'not_df':
            d['as'] = draw(st.sampled_from(['list', 'dict', 'series', 'ndarray', 'none', 'str']))
        defects.append(d)
    dtypes = {'ceilo': draw(st.sampled_from(['string', 'string', 'object', 'str', 'intobj'])),
              'dt': draw(st.sampled_from(['float', 'float', 'int', 'float32', 'str', 'object'])),
              'height': draw(st.sampled_from(['float', 'float', 'int', 'float32', 'str', 'object'])),
              'type': draw(st.sampled_from(['int', 'int', 'int8', 'float', 'str', 'Int64']))}
    return {'rows': rows, 'defects': defects, 'dtypes': dtypes,
            'extra': draw(st.lists(st.sampled_from(['x', 'slice_id', 'index']), max_size=2, unique=True)),
            'cols': list(draw(S.permutation(['ceilo', 'dt', 'height', 'type']))),
            'index': draw(st.sampled_from(['range', 'range', 'offset', 'string', 'nonunique'])),
            'index_name': draw(st.sampled_from([None, None, None, 'dt', 'ceilo', 'type', 'time']))}


def strategy(tier):
    return strategy_()


ATHERIS = {'quick': (2, 400), 'thorough': (16, 12000)}   # (instances, libFuzzer runs per instance)


def jobs(tier, seed):
    from vlib import runner
    n, runs = ATHERIS[tier]
    return [{'name': f'atheris-{i}', 'runs': runs, 'seed': runner.derive_seed(seed, ID, 'atheris', i) % (2 ** 31)}
            for i in range(n)]


def run_job(job, ctx):
    import sys
    from vlib import runner
    runner.atheris_explore(sys.modules[__name__], ctx, ID, job['runs'], job['seed'], job['tier'])


def build(case):
    """ -> (object to feed, model rows (coerced) or None when not a frame / column missing, kinds applied) """
    rows = [list(r) for r in case['rows']]
    kinds = []
    str_dt = {}      # row index -> literal string for dt (dup_str)
    drop = []
    not_df = None
    empty = False
    for d in case['defects']:
        k = d['kind']
        i = d['at'] % len(rows)
        r = rows[i]
        others = sorted(set(x[0] for x in rows) - {r[0]})
        if k == 'drop_col':
            drop.append(d['col'])
        elif k == 'dup_exact':
            rows.append(list(r))
        elif k == 'dup_negzero':
            # a row equal only because -0.0 == 0.0
            rows.append([r[0], 0.0, r[2], r[3]])
            rows.append([r[0], -0.0, r[2], r[3]])
        elif k == 'dup_nd':
            rows.append([r[0], r[1] - 12345.0, None, 0])
            rows.append([r[0], r[1] - 12345.0, None, 0])
        elif k == 'dup_str':
            rows.append(list(r))
            str_dt[len(rows) - 1] = True
        elif k == 'nd_same':
            rows.append([r[0], r[1], None, 0] if r[3] != 0 else [r[0], r[1], 777.0, 1])
        elif k == 'nd_other':
            if r[3] != 0 and others and not any(x[0] == others[0] and x[1] == r[1] for x in rows):
                rows.append([others[0], r[1], None, 0])
            else:
                continue
        elif k == 'vv_same':
            rows.append([r[0], r[1], 555.5, -1] if r[3] != -1 else [r[0], r[1], 555.5, 1])
        elif k == 'vv_other':
            if r[3] > 0 and others and not any(x[0] == others[0] and x[1] == r[1] for x in rows):
                rows.append([others[0], r[1], 555.5, -1])
            else:
                continue
        elif k == 'empty':
            empty = True
        elif k == 'not_df':
            not_df = d['as']
        kinds.append(k)
    dts = dict(case['dtypes'])
    if str_dt:
        dts['dt'] = 'str'
    # --- model rows (what coercion must give)
    def name(c):
        return str(int(c)) if dts['ceilo'] == 'intobj' and str(c).lstrip('-').isdigit() else str(c)
    if dts['ceilo'] == 'intobj' and not all(str(r[0]).isdigit() and str(int(r[0])) == str(r[0]) for r in rows):
        dts['ceilo'] = 'object'
    # --- frame
    cols = {}
    if dts['ceilo'] == 'intobj':
        cols['ceilo'] = pd.Series([int(r[0]) for r in rows], dtype=object)
    elif dts['ceilo'] == 'object':
        cols['ceilo'] = pd.Series([str(r[0]) for r in rows], dtype=object)
    elif dts['ceilo'] == 'str':
        cols['ceilo'] = pd.Series([str(r[0]) for r in rows], dtype='str')
    else:
        cols['ceilo'] = pd.Series([str(r[0]) for r in rows], dtype=pd.StringDtype())
    dtv = np.array([float(r[1]) for r in rows], dtype=float)
    hv = np.array([np.nan if r[2] is None else float(r[2]) for r in rows], dtype=float)
    for col, vals in (('dt', dtv), ('height', hv)):
        how = dts[col]
        if how == 'int' and len(vals) and not np.isnan(vals).any() and np.all(vals == np.round(vals)) and \
                np.all(np.abs(vals) < 2 ** 52) and not np.any(np.signbit(vals) & (vals == 0)):
            cols[col] = pd.Series(vals.astype('int64'))
        elif how == 'float32' and np.array_equal(vals.astype('float32').astype(float), vals, equal_nan=True):
            cols[col] = pd.Series(vals.astype('float32'))
        elif how == 'str':
            lit = [repr(float(v)) for v in vals]
            if col == 'dt':
                for i in str_dt:
                    lit[i] = str(int(vals[i])) if vals[i] == int(vals[i]) else repr(float(vals[i])) + '0'
            cols[col] = pd.Series(lit, dtype=object)
        elif how == 'object':
            cols[col] = pd.Series([None if np.isnan(v) else float(v) for v in vals], dtype=object) \
                if col == 'height' else pd.Series([float(v) for v in vals], dtype=object)
        else:
            cols[col] = pd.Series(vals)
            how = 'float'
        dts[col] = how if col in cols and str(cols[col].dtype) != 'float64' else 'float'
    tv = [int(r[3]) for r in rows]
    if dts['type'] == 'str':
        cols['type'] = pd.Series([str(t) for t in tv], dtype=object)
    elif dts['type'] == 'float':
        cols['type'] = pd.Series(tv, dtype=float)
    elif dts['type'] in ('int8', 'Int64'):
        cols['type'] = pd.Series(tv, dtype=dts['type'])
    else:
        cols['type'] = pd.Series(tv, dtype=int)
    df = pd.DataFrame(cols)
    for ex in case['extra']:
        df[ex] = np.arange(len(df)) if ex != 'x' else 'foo'
    order = case['cols'] + [c for c in df.columns if c not in case['cols']]
    df = df[order]
    n = len(df)
    if case['index'] == 'offset':
        df.index = pd.RangeIndex(5, 5 + n)
    elif case['index'] == 'string':
        df.index = pd.Index([f'k{i}' for i in range(n)])
    elif case['index'] == 'nonunique':
        df.index = pd.Index([i // 2 for i in range(n)])
    if case.get('index_name'):
        df.index = df.index.set_names(case['index_name'])
    model = [[name(r[0]), float(r[1]), None if r[2] is None else float(r[2]), int(r[3])] for r in rows]
    if drop:
        df = df.drop(columns=sorted(set(drop)))
    if empty:
        df = df.iloc[0:0]
        model = []
    obj = df
    if not_df == 'list':
        obj = df.values.tolist()
    elif not_df == 'dict':
        obj = df.to_dict('list')
    elif not_df == 'series':
        obj = df.iloc[:, 0]
    elif not_df == 'ndarray':
        obj = df.to_numpy()
    elif not_df == 'none':
        obj = None
    elif not_df == 'str':
        obj = 'ceilo,dt,height,type'
    # verdict of the model
    if not_df:
        verdict = 'not a DataFrame'
    elif empty:
        verdict = 'empty'
    elif drop:
        verdict = 'missing column'
    else:
        verdict = oracles.screening_model(model)
    layout = sorted(set([f'{c}:{v}' for c, v in dts.items() if v not in ('float', 'int', 'string') or
                         (c in ('dt', 'height') and v == 'int')] +
                        (['extra'] if case['extra'] else []) +
                        (['colperm'] if case['cols'] != ['ceilo', 'dt', 'height', 'type'] else []) +
                        (['index:' + case['index']] if case['index'] != 'range' else []) +
                        (['index-name:' + case['index_name']] if case.get('index_name') else [])))
    return obj, model, verdict, kinds, layout


def same_frame(a, b):
    return (list(a.columns) == list(b.columns) and list(a.index) == list(b.index) and
            [str(t) for t in a.dtypes] == [str(t) for t in b.dtypes] and
            all(_same_col(a[c], b[c]) for c in a.columns))


def _same_col(x, y):
    for u, v in zip(x.tolist(), y.tolist()):
        if u is v:
            continue
        if isinstance(u, float) and isinstance(v, float):
            if math.isnan(u) and math.isnan(v):
                continue
            if u != v or math.copysign(1, u) != math.copysign(1, v):
                return False
            continue
        if pd.isna(u) if not isinstance(u, str) else False:
            if not (pd.isna(v) if not isinstance(v, str) else False):
                return False
            continue
        if type(u) is not type(v) or u != v:
            return False
    return len(x) == len(y)


def check(case):
    from ampycloud import hardcoded
    from ampycloud.errors import AmpycloudError
    from ampycloud.utils import utils
    from ampycloud.data import CeiloChunk
    res = Result()
    obj, model, verdict, kinds, layout = build(case)
    before = copy.deepcopy(obj)
    detail = f'defects={kinds} layout={layout} verdict={verdict} rows={model[:6]}'
    out, raised = None, None
    try:
        with warnings.catch_warnings():
            warnings.simplefilter('ignore')
            out = utils.check_data_consistency(obj)
    except AmpycloudError as exc:
        raised = 'AmpycloudError'
    except Exception as exc:
        raised = type(exc).__name__ + ': ' + str(exc)[:200]
    if verdict is not None:
        if raised is None:
            res.fail('accepts', f'illegal input accepted ({verdict})', detail)
        elif raised != 'AmpycloudError':
            res.fail('errtype', f'illegal input ({verdict}) refused with another exception type', detail + ' ' + raised)
    else:
        if raised is not None:
            res.fail('refuses', 'legal input refused' + ('' if raised == 'AmpycloudError' else ' with a non-Ampycloud exception'),
                     detail + ' ' + raised)
        else:
            if out is obj:
                res.fail('newobj', 'the argument itself is returned', detail)
            if sorted(out.columns) != ['ceilo', 'dt', 'height', 'type']:
                res.fail('columns', 'result does not have exactly the four required columns', f'{list(out.columns)}')
            else:
                for col, req in hardcoded.REQ_DATA_COLS.items():
                    if out[col].dtype != req:
                        res.fail('dtypes', f'column {col} does not have the required dtype',
                                 f'{out[col].dtype} vs {req} {detail}')
                got = [[c, d, None if (h is None or math.isnan(h)) else h, t] for c, d, h, t in
                       zip(out['ceilo'].tolist(), out['dt'].tolist(), out['height'].tolist(), out['type'].tolist())]
                if got != model:
                    bad = next((i for i, (g, m) in enumerate(zip(got, model)) if g != m), None)
                    res.fail('values', 'values changed by the screening',
                             f'row {bad}: {got[bad] if bad is not None else len(got)} vs '
                             f'{model[bad] if bad is not None else len(model)} {detail}')
                # idempotence, no column / dtype warning on the second pass
                with warnings.catch_warnings(record=True) as wlist:
                    warnings.simplefilter('always')
                    try:
                        out2 = utils.check_data_consistency(out)
                        if not same_frame(out, out2):
                            res.fail('idempotent', 'checking an already-checked frame changes it', detail)
                    except Exception as exc:
                        res.fail('idempotent', 'checking an already-checked frame raises', f'{exc!r} {detail}')
                # history: a frame *derived from the checked output* (so that any metadata pandas propagates comes
                # along) and then made illegal must still be refused
                derived = []
                if len(out) >= 1:
                    derived.append(('duplicated row', pd.concat([out, out.iloc[[len(out) // 2]]])))
                    hit = [i for i, t in enumerate(out['type'].tolist()) if t != 0]
                    if hit:
                        bad = out.copy()
                        extra = out.iloc[[hit[0]]].copy()
                        extra['type'] = 0
                        extra['height'] = float('nan')
                        derived.append(('type 0 + hit', pd.concat([bad, extra], ignore_index=True)))
                    typed = [i for i, t in enumerate(out['type'].tolist()) if t > 0]
                    if typed:
                        bad = out.copy()
                        extra = out.iloc[[typed[0]]].copy()
                        extra['type'] = -1
                        extra['height'] = 4321.0
                        derived.append(('VV + hit', pd.concat([bad, extra], ignore_index=True)))
                for what, bad in derived:
                    try:
                        with warnings.catch_warnings():
                            warnings.simplefilter('ignore')
                            utils.check_data_consistency(bad)
                        res.fail('accepts', f'illegal frame derived from a checked output accepted ({what})', detail)
                    except AmpycloudError:
                        pass
                    except Exception as exc:
                        res.fail('errtype', f'illegal frame derived from a checked output refused with {type(exc).__name__}',
                                 detail)
                colw = [str(w.message) for w in wlist if str(w.message).startswith('Column ')]
                if colw:
                    res.fail('idempotent', 'already-checked frame still triggers a column/dtype warning',
                             f'{colw[:2]} {detail}')
    # the argument is untouched
    if isinstance(obj, pd.DataFrame):
        if not same_frame(obj, before):
            res.fail('argument', 'the argument was modified', detail)
    # CeiloChunk agrees
    try:
        with warnings.catch_warnings():
            warnings.simplefilter('ignore')
            CeiloChunk(obj)
        ch = None
    except AmpycloudError:
        ch = 'AmpycloudError'
    except Exception as exc:
        ch = type(exc).__name__
    if (ch is None) != (verdict is None) or (ch not in (None, 'AmpycloudError')):
        res.fail('chunk', 'CeiloChunk construction disagrees with the screening verdict',
                 f'chunk={ch} {detail}')
    res.nontrivial = bool(kinds) or bool(layout)
    res.key = [kinds, layout, verdict]
    res.labels = ['verdict:' + (verdict or 'legal')] + ['defect:' + k for k in kinds]
    res.sample = {'n_rows': len(case['rows']), 'defects': kinds, 'layout': layout, 'verdict': verdict}
    return res
