"""C12 - all documented ways of setting parameters are equivalent; reset restores all."""
import copy
import os
import tempfile
import warnings

from hypothesis import strategies as st

from vlib import observe, oracles, strategies as S
from vlib.runner import Result
from vlib.props.c11 import model_override, _dict_diff

ID = 'C12'
RULE = ('Cases = scene (layered, split_candidate, merge_chain, exact_counts, ref_window) x arbitrary prior global contents G0 '
        '(nested partial assignment over existing leaves) x nested partial assignment P (2-8 leaves over all sections) x '
        '0-2 unknown keys at any depth x a subset of top-level names for reset_prms. Differential oracle, bit-exact on '
        'chunk.prms, the three tables, chunk.data and the three messages: run(data, prms=P) == edit the global leaf by leaf '
        'then run(data) == dump P to YAML (ruamel, round-trip pre-checked) + set_prms + run(data), all on top of G0, and the same file applied a second time after the global was changed behind its back (named reset + in-place edits); '
        'poisoned global: every leaf named by P is set to the string "POISON" in the global, the per-call result must not '
        'change; unknown keys: at least one AmpycloudWarning, key sets of chunk.prms identical to the global\'s at every '
        'depth, result unchanged; reset_prms(which): the named entries deep-equal a fresh read of the packaged YAML and '
        'stay so after an in-place edit followed by another reset (not aliased), other entries untouched; reset_prms(): '
        'everything equals the packaged defaults. Non-trivial = P names >= 3 leaves in >= 2 sections and changes at least '
        'one table entry or message relative to running on G0 alone (measured). Distinct by (P, G0, class, message).')
ASSUMPTIONS = ['packaged defaults are read by the harness with its own YAML load of '
               'src/ampycloud/prms/ampycloud_default_prms.yml', 'crashes of run() are left to C08']
BUDGET = {'quick': 260, 'thorough': 5000}
WEIGHTS = {'layered': 5, 'split_candidate': 3, 'merge_chain': 3, 'exact_counts': 1, 'ref_window': 1}
TOP = ['MPL_STYLE', 'MSA', 'MSA_HIT_BUFFER', 'MAX_HITS_OKTA0', 'MAX_HOLES_OKTA8', 'BASE_LVL_HEIGHT_PERC',
       'BASE_LVL_LOOKBACK_PERC', 'EXCLUDE_FOR_BASE_HEIGHT_CALC', 'LOWESS', 'MIN_SEP_VALS', 'MIN_SEP_LIMS',
       'SLICING_PRMS', 'GROUPING_PRMS', 'LAYERING_PRMS']


@st.composite
def strategy_(draw):
    case = draw(S.scene(WEIGHTS))
    out = {'cls': case['cls'], 'rows': case['rows'][:260]}
    out['G0'] = draw(S.leaf_assignment(0, 4))
    out['P'] = draw(S.leaf_assignment(2, 8))
    out['unknown'], out['n_unknown'] = draw(S.with_unknown_keys(out['P'], p=5))
    out['reset'] = draw(st.one_of(st.none(), st.lists(st.sampled_from(TOP), min_size=1, max_size=4, unique=True),
                                  st.sampled_from(TOP)))
    return out


def strategy(tier):
    return strategy_()


def leaf_paths(dct, pre=()):
    for k, v in dct.items():
        if isinstance(v, dict):
            yield from leaf_paths(v, pre + (k,))
        else:
            yield pre + (k,), v


def set_global(g, assignment):
    for path, val in leaf_paths(assignment):
        d = g
        for k in path[:-1]:
            d = d[k]
        d[path[-1]] = copy.deepcopy(val)


def keyset(dct):
    return {k: keyset(v) if isinstance(v, dict) else None for k, v in dct.items()}


def packaged_defaults():
    from ruamel.yaml import YAML
    import ampycloud
    pth = os.path.join(os.path.dirname(ampycloud.__file__), 'prms', 'ampycloud_default_prms.yml')
    with open(pth, encoding='utf-8') as fil:
        return YAML(typ='safe').load(fil)


def outcome(chunk):
    snap = observe.snapshot(chunk)
    snap['prms'] = copy.deepcopy(chunk.prms)
    return snap


def diff_outcome(a, b):
    pa, pb = a.pop('prms'), b.pop('prms')
    try:
        d = _dict_diff(pa, pb)
        if d:
            return 'chunk.prms ' + d
        return observe.diff_snap(a, b)
    finally:
        a['prms'], b['prms'] = pa, pb


def check(case):
    import ampycloud
    from ampycloud import dynamic
    from ampycloud.errors import AmpycloudWarning
    from ruamel.yaml import YAML
    res = Result()
    res.labels = [case['cls']]
    frame = observe.build_frame(case['rows'])
    P, G0 = case['P'], case['G0']
    detail = f'P={P} G0={G0}'
    warnings.simplefilter('ignore')
    try:
        # ---- route 1: per-call on top of G0
        ampycloud.reset_prms()
        set_global(dynamic.AMPYCLOUD_PRMS, G0)
        base = outcome(ampycloud.run(frame))
        g_before = copy.deepcopy(dynamic.AMPYCLOUD_PRMS)
        r1 = outcome(ampycloud.run(frame, prms=copy.deepcopy(P)))
        if dynamic.AMPYCLOUD_PRMS != g_before:
            res.fail('percall', 'per-call run changed the global parameters', _dict_diff(g_before, dynamic.AMPYCLOUD_PRMS))
        exp = model_override(copy.deepcopy(g_before), P)
        d = _dict_diff(exp, r1['prms'])
        if d:
            res.fail('percall', 'per-call values did not override exactly the keys named', f'{d} {detail}')
        res.evals = 2
    except Exception as exc:
        res.skipped = 'run crashed: ' + observe.crash_sig(exc)
        ampycloud.reset_prms()
        return res
    try:
        # ---- route 2: global dict
        ampycloud.reset_prms()
        set_global(dynamic.AMPYCLOUD_PRMS, G0)
        set_global(dynamic.AMPYCLOUD_PRMS, P)
        r2 = outcome(ampycloud.run(frame))
        d = diff_outcome(r1, r2)
        if d:
            res.fail('routes', 'per-call route and global-dict route disagree', f'{d} {detail}')
        # ---- route 3: YAML
        yaml = YAML(typ='safe')
        with tempfile.TemporaryDirectory(prefix='c12_') as tmp:
            pth = os.path.join(tmp, 'prms.yml')
            with open(pth, 'w', encoding='utf-8') as fil:
                yaml.dump(P, fil)
            with open(pth, encoding='utf-8') as fil:
                back = YAML(typ='safe').load(fil)
            if back == P and not _dict_diff(P, back):
                ampycloud.reset_prms()
                set_global(dynamic.AMPYCLOUD_PRMS, G0)
                ampycloud.set_prms(pth)
                r3 = outcome(ampycloud.run(frame))
                d = diff_outcome(r1, r3)
                if d:
                    res.fail('routes', 'per-call route and YAML route disagree', f'{d} {detail}')
                res.evals += 1
                # history: the global set is changed behind the file's back (named reset of the sections P
                # touches + in-place edits), then the very same file is applied again
                ampycloud.reset_prms(which=sorted(P))
                set_global(dynamic.AMPYCLOUD_PRMS, G0)
                dynamic.AMPYCLOUD_PRMS['MAX_HOLES_OKTA8'] = G0.get('MAX_HOLES_OKTA8', 1)
                ampycloud.set_prms(pth)
                r3b = outcome(ampycloud.run(frame))
                d = diff_outcome(r1, r3b)
                if d:
                    res.fail('routes', 'YAML route applied a second time (same file, global changed in between) '
                             'disagrees with the per-call route', f'{d} {detail}')
                res.evals += 1
            else:
                res.skipped = 'YAML round trip of P not exact'
        # ---- poisoned global
        ampycloud.reset_prms()
        set_global(dynamic.AMPYCLOUD_PRMS, G0)
        poison = {}
        for path, _ in leaf_paths(P):
            S.set_path(poison, path, 'POISON')
        set_global(dynamic.AMPYCLOUD_PRMS, poison)
        try:
            r4 = outcome(ampycloud.run(frame, prms=copy.deepcopy(P)))
            d = diff_outcome(r1, r4)
            if d:
                res.fail('poison', 'per-call run is affected by global values of keys it overrides', f'{d} {detail}')
        except Exception as exc:
            res.fail('poison', 'per-call run reads the global value of a key it overrides (crashed on the sentinel): '
                     + observe.crash_sig(exc), f'{exc!r} {detail}')
        # ---- unknown keys
        if case['n_unknown']:
            ampycloud.reset_prms()
            set_global(dynamic.AMPYCLOUD_PRMS, G0)
            with warnings.catch_warnings(record=True) as wlist:
                warnings.simplefilter('always')
                r5 = outcome(ampycloud.run(frame, prms=copy.deepcopy(case['unknown'])))
            if not any(issubclass(w.category, AmpycloudWarning) and 'unknown' in str(w.message).lower()
                       for w in wlist):
                res.fail('unknown', 'unknown key raised no AmpycloudWarning', f"{case['unknown']}")
            if keyset(r5['prms']) != keyset(dynamic.AMPYCLOUD_PRMS):
                res.fail('unknown', 'unknown key added to (or key lost from) the chunk parameters',
                         _dict_diff(keyset(dynamic.AMPYCLOUD_PRMS), keyset(r5['prms'])))
            d = diff_outcome(r1, r5)
            if d:
                res.fail('unknown', 'unknown keys changed the result', f"{d} {case['unknown']}")
            res.labels.append('unknown-keys')
        # ---- reset
        defaults = packaged_defaults()
        ampycloud.reset_prms()
        set_global(dynamic.AMPYCLOUD_PRMS, G0)
        set_global(dynamic.AMPYCLOUD_PRMS, P)
        dynamic.AMPYCLOUD_PRMS['EXCLUDE_FOR_BASE_HEIGHT_CALC'].append('in-place')
        dynamic.AMPYCLOUD_PRMS['LAYERING_PRMS']['gmm_kwargs']['scores'] = 'AIC'
        prior = copy.deepcopy(dynamic.AMPYCLOUD_PRMS)
        which = case['reset']
        names = TOP if which is None else ([which] if isinstance(which, str) else which)
        for rnd in range(2):
            if which is None:
                ampycloud.reset_prms()
            else:
                ampycloud.reset_prms(copy.deepcopy(which))
            g = dynamic.AMPYCLOUD_PRMS
            for k in TOP:
                want = defaults[k] if k in names else prior[k]
                if k not in g or _dict_diff({'v': want}, {'v': g[k]}):
                    res.fail('reset', 'reset_prms did not restore the packaged defaults' if k in names
                             else 'reset_prms touched an entry it was not asked to reset',
                             f'which={which} key={k} round={rnd}: {_dict_diff({"v": want}, {"v": g.get(k)})}')
            if set(g) != set(TOP):
                res.fail('reset', 'reset_prms changed the set of top-level keys', str(sorted(set(g) ^ set(TOP))))
            # nested in-place edits of the just-reset entries, then reset again
            for k in names:
                if isinstance(g[k], dict):
                    first = sorted(g[k])[0]
                    g[k][first] = 'EDITED'
                elif isinstance(g[k], list):
                    g[k].append('EDITED')
        res.labels.append('reset:' + ('all' if which is None else 'str' if isinstance(which, str) else 'list'))
    except Exception as exc:
        res.fail('harness-visible-crash', 'a parameter route crashed: ' + observe.crash_sig(exc), f'{exc!r} {detail}')
    finally:
        ampycloud.reset_prms()
    nleaves = len(list(leaf_paths(P)))
    sections = len(P)
    changed = diff_outcome(base, r1) is not None
    res.nontrivial = nleaves >= 3 and sections >= 2 and changed
    if changed:
        res.labels.append('P-changes-result')
    res.key = [P, G0, case['cls'], r1['msg']['layers']]
    res.sample = {'cls': case['cls'], 'n_rows': len(case['rows']), 'P': P, 'G0': G0, 'reset': case['reset'],
                  'msg': r1['msg']['layers'], 'msg_on_G0': base['msg']['layers']}
    return res
