"""C10 - outcome depends only on the four column values, not on index labels or layout."""
import copy

import numpy as np
import pandas as pd
from hypothesis import strategies as st

from vlib import observe, oracles, strategies as S
from vlib.runner import Result

ID = 'C10'
RULE = ('Cases = generated scene (layered, split_candidate, merge_chain, exact_counts, degenerate, ref_window) x '
        'parameters (MSA placed among the hits so that cropping selects rows, look-back < 100, exclusion, separation) x '
        'a frame variant: index relabelled (shuffled labels, offset, float, string, non-unique per-instrument labels as '
        'pd.concat gives, all labels equal; index named like a column), columns permuted, 0-3 extra columns (constant, row-unique, named like the '
        'internal slice_id / group_id / layer_id, or holding unhashable objects: lists, arrays, dicts), dtype variants (ceilo object / str / StringDtype; dt and height as '
        'int64 or float32 only when every value is exactly representable; type as int8 / Int64 / integer-valued float). '
        'Metamorphic oracle, bit-exact: the three tables, the three messages, the flag and the per-hit assignments '
        '(chunk.data compared positionally, index ignored) equal those of the plain RangeIndex frame with canonical '
        'dtypes; the variant must not raise when the plain run does not. Non-trivial = non-unique labels, or a label '
        'change together with MSA cropping that altered/removed a row, or a dtype coercion. Distinct by (variant kinds, '
        'crop happened, class, layer codes).')
ASSUMPTIONS = ['crashes of the *plain* run are left to C08 (skipped here)']
BUDGET = {'quick': 700, 'thorough': 12000}
CORPUS = 'pipeline'


def from_corpus(case):
    return dict(case, variant={'index': 'nonunique', 'cols': ['type', 'height', 'dt', 'ceilo'], 'extra': ['const', 'slice_id'],
                               'dtypes': {'ceilo': 'object', 'dt': 'float', 'height': 'float32', 'type': 'int8'}})
WEIGHTS = {'layered': 8, 'split_candidate': 3, 'merge_chain': 2, 'exact_counts': 2, 'degenerate': 2, 'ref_window': 2}
INDEX_KINDS = ['range', 'shuffled', 'shuffled', 'offset', 'float', 'string', 'nonunique', 'nonunique', 'nonunique',
               'allzero']


@st.composite
def strategy_(draw):
    case = draw(S.pipeline_case(WEIGHTS, vary=('msa', 'okta', 'sep', 'base'), p_default_prms=0.15, anomalies=True, anomaly_negative=False,
                                msa_kinds=['none'] * 3 + ['athit'] * 3 + ['near'] * 3 + ['high', 'low']))
    n = len(case['rows'])
    var = {'index': draw(st.sampled_from(INDEX_KINDS))}
    if var['index'] == 'shuffled':
        var['perm'] = list(draw(S.permutation(range(n))))
    var['index_name'] = draw(st.sampled_from([None, None, None, 'dt', 'ceilo', 'height', 'idx']))
    var['cols'] = list(draw(S.permutation(['ceilo', 'dt', 'height', 'type'])))
    var['extra'] = draw(st.lists(st.sampled_from(['const', 'unique', 'slice_id', 'group_id', 'layer_id', 'index',
                                                  'height_base', 'lists', 'arrays', 'dicts']), max_size=3, unique=True))
    var['dtypes'] = {'ceilo': draw(st.sampled_from(['string', 'string', 'object', 'str'])),
                     'dt': draw(st.sampled_from(['float', 'float', 'int64', 'float32'])),
                     'height': draw(st.sampled_from(['float', 'float', 'int64', 'float32'])),
                     'type': draw(st.sampled_from(['int', 'int', 'int8', 'Int64', 'float', 'int32']))}
    case['variant'] = var
    return case


def strategy(tier):
    return strategy_()


def make_variant(rows, var):
    """ -> (frame, list of applied variant kinds) """
    df = observe.build_frame(rows)
    n = len(df)
    kinds = []
    # dtypes (only exact re-encodings)
    dts = var['dtypes']
    if dts['ceilo'] == 'object':
        df['ceilo'] = df['ceilo'].astype(object)
        kinds.append('ceilo:object')
    elif dts['ceilo'] == 'str':
        df['ceilo'] = df['ceilo'].astype(object).astype('str')
        kinds.append('ceilo:str')
    for col in ('dt', 'height'):
        vals = df[col].to_numpy()
        if dts[col] == 'int64' and not np.isnan(vals).any() and np.all(vals == np.round(vals)) \
                and np.all(np.abs(vals) < 2 ** 52):
            df[col] = vals.astype('int64')
            kinds.append(f'{col}:int64')
        elif dts[col] == 'float32':
            v32 = vals.astype('float32')
            if np.array_equal(v32.astype('float64'), vals, equal_nan=True):
                df[col] = v32
                kinds.append(f'{col}:float32')
    if dts['type'] in ('int8', 'Int64', 'int32'):
        df['type'] = df['type'].astype(dts['type'])
        kinds.append('type:' + dts['type'])
    elif dts['type'] == 'float':
        df['type'] = df['type'].astype(float)
        kinds.append('type:float')
    # extra columns
    for ex in var['extra']:
        if ex == 'const':
            df['extra_const'] = 1.5
        elif ex == 'unique':
            df['extra_unique'] = np.arange(n)[::-1]
        elif ex == 'index':
            df['index'] = np.arange(n)
        elif ex == 'lists':
            df['flags'] = pd.Series([[i, 'ok'] for i in range(n)], dtype=object)
        elif ex == 'arrays':
            df['profile'] = pd.Series([np.arange(3) + i for i in range(n)], dtype=object)
        elif ex == 'dicts':
            df['meta'] = pd.Series([{'id': i} for i in range(n)], dtype=object)
        else:
            df[ex] = 7
        kinds.append('extra')
    # column order
    order = var['cols'] + [c for c in df.columns if c not in var['cols']]
    if order != list(df.columns):
        df = df[order[::-1]] if len(order) > 4 and var['extra'] else df[order]
        kinds.append('colperm')
    # index
    ik = var['index']
    if ik == 'shuffled':
        perm = var['perm']
        df.index = pd.Index([perm[i % len(perm)] for i in range(n)]) if len(perm) == n else df.index
    elif ik == 'offset':
        df.index = pd.RangeIndex(1000, 1000 + n)
    elif ik == 'float':
        df.index = pd.Index([0.5 * i - 3 for i in range(n)])
    elif ik == 'string':
        df.index = pd.Index([f'r{i}' for i in range(n)])
    elif ik == 'nonunique':
        cnt, lab = {}, []
        for c in df['ceilo'].tolist():
            lab.append(cnt.get(c, 0))
            cnt[c] = cnt.get(c, 0) + 1
        df.index = pd.Index(lab)
        if len(set(lab)) == n:
            ik = 'range-like'
    elif ik == 'allzero':
        df.index = pd.Index([0] * n)
        if n == 1:
            ik = 'range-like'
    if ik not in ('range', 'range-like'):
        kinds.append('index:' + ik)
    if var.get('index_name'):
        df.index = df.index.set_names(var['index_name'])
        kinds.append('index:named-' + var['index_name'])
    return df, sorted(set(kinds))


def _frames_equal(a, b):
    if list(a.columns) != list(b.columns) or list(a.index) != list(b.index) or len(a) != len(b):
        return False
    for col in a.columns:
        for x, y in zip(a[col].tolist(), b[col].tolist()):
            if isinstance(x, np.ndarray) or isinstance(y, np.ndarray):
                if not np.array_equal(x, y):
                    return False
            elif x != y and not (x != x and y != y):
                return False
    return True


def check(case):
    res = Result()
    res.labels = [case['cls']]
    try:
        a = observe.run_case(case)
    except Exception as exc:
        res.skipped = 'plain run crashed: ' + observe.crash_sig(exc)
        return res
    frame, kinds = make_variant(case['rows'], case['variant'])
    before = copy.deepcopy(frame)
    res.evals = 2
    def values_only(snap):
        # per-hit assignments are compared by value; the storage dtype of chunk.data is not part of the statement
        snap['data'] = {k: v for k, v in snap['data'].items() if not k.startswith('__dtype__')}
        for col in ('dt', 'height'):
            snap['data'][col] = [float(v).hex() if isinstance(v, int) and not isinstance(v, bool) else v
                                 for v in snap['data'][col]]
        return snap
    snap_a = values_only(observe.snapshot(a, index=False))
    try:
        b = observe.run_case(case, frame=frame)
    except Exception as exc:
        res.fail('raises', 'variant frame raises although the plain frame does not: '
                 + ','.join(k for k in kinds if k.startswith('index')) + ' ' + observe.crash_sig(exc),
                 f'variant={kinds} {exc!r}'[:600])
        b = None
    if b is not None:
        dd = observe.diff_snap(snap_a, values_only(observe.snapshot(b, index=False)))
        if dd:
            idx = ','.join(k for k in kinds if k.startswith('index')) or 'no-index-change'
            oth = ','.join(sorted(set(k.split(':')[0] for k in kinds if not k.startswith('index'))))
            relabelled = idx != 'no-index-change'
            res.fail('differs', f'result differs for an equivalent frame ({idx}' + ('' if relabelled else '; ' + oth) + ')',
                     f'{dd} variant={kinds}')
    if not _frames_equal(before, frame):
        res.fail('caller', 'variant frame modified by the run', '')
    cropped = len(a.data) != len(case['rows']) or bool(a.clouds_above_msa_buffer) or \
        sum(1 for r in case['rows'] if r[2] is not None) != int(a.data['height'].notna().sum())
    nonuniq = any(k in ('index:nonunique', 'index:allzero') for k in kinds)
    relabel = any(k.startswith('index') for k in kinds)
    coerced = any(':' in k and not k.startswith('index') for k in kinds)
    res.nontrivial = nonuniq or (relabel and cropped) or coerced
    res.labels += kinds + (['cropped'] if cropped else [])
    lookback = oracles.prm(case['prms'], 'BASE_LVL_LOOKBACK_PERC')
    if lookback < 100:
        res.labels.append('lookback<100')
    res.key = [kinds, cropped, case['cls'], snap_a['msg']['layers'], lookback < 100]
    res.sample = {'cls': case['cls'], 'n_rows': len(case['rows']), 'prms': case['prms'], 'variant': kinds,
                  'cropped': cropped, 'msg': snap_a['msg']['layers']}
    return res
