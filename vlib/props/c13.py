"""C13 - concurrent or interleaved chunks with per-call parameters do not interfere."""
import copy
import itertools
import sys
import threading

from hypothesis import strategies as st

from vlib import observe, oracles, strategies as S
from vlib import runner, sched
from vlib.runner import Result

ID = 'C13'
RULE = ('Cases = 2-3 (hit table, per-call parameter dict) pairs drawn so that data and result-changing parameters differ '
        '(MSA, okta buffers, percentiles, look-back, separation, slicing / grouping / layering leaves). (a) stage '
        'interleavings: for pairs, all C(8,4)=70 interleavings of the four steps (find_slices, find_groups, find_layers, '
        'metar_msg) of the two chunks are enumerated for each drawn pair; for triples, interleavings of the three stages of '
        'three chunks (1680 in total) are sampled (quick) / enumerated (thorough). (b) thread schedules: one thread per '
        'chunk runs ampycloud.run()+metar_msg under a harness-owned scheduler built on sys.monitoring LINE events enabled '
        'on the code objects of ampycloud\'s non-plot modules only; a thread runs only while it holds the baton, and at '
        '1-40 Hypothesis-drawn global step numbers the baton passes to a drawn other thread (replayable: case + switch '
        'vector); plus, systematically, pre-emption bound 1: for a drawn pair of chunks that both engage the mixture '
        'model, thread A is pre-empted exactly once at the first execution of each distinct ampycloud source line of its '
        'run (several hundred), B runs to completion, A resumes - both role assignments; and rendezvous schedules (two '
        'pre-emptions): A runs to its first execution of line L, B runs to its first execution of the same L, A '
        'finishes, B finishes - for every distinct line L, with B stopped at its 1st and 2nd (thorough: also 3rd) execution of L; the ambient global NumPy random state is re-seeded per schedule from the case digest. The rendezvous schedules run on two kinds of pairs: mixture-sensitive pairs (second chunk from the RNG-sensitive corpus) and parameter pairs (the same hits in both chunks with every parameter leaf set to a different value). (c) supplementary: free-running threads with sys.setswitchinterval(1e-6). Oracle: every chunk\'s snapshot '
        '(tables, chunk.data with ids, messages, flag, prms) equals its isolated sequential reference, bit-exact, and the '
        'global parameter dict is unchanged. Non-trivial = at least one hand-over happens while two chunks are in flight '
        '(stage interleavings: not a plain concatenation; schedules: >= 1 executed switch). Distinct by (case digest, '
        'interleaving / executed switch log).')
ASSUMPTIONS = ['pre-emption is modelled at ampycloud source-line granularity; races inside C extensions or needing real '
               'parallelism (free-threaded builds) are out of reach',
               'crashes of the isolated reference runs are left to C08 (case skipped)']
BUDGET = {'quick': 0, 'thorough': 0}
N_PAIRS = {'quick': 6, 'thorough': 48}
N_TRIPLES = {'quick': 6, 'thorough': 12}
TRIPLE_SAMPLES = {'quick': 40, 'thorough': 1680}
N_SCHED = {'quick': 128, 'thorough': 2400}
N_FREE = {'quick': 16, 'thorough': 160}
N_PB1 = {'quick': 1, 'thorough': 6}
N_RV = {'quick': 1, 'thorough': 6}
STEPS4 = ['S', 'G', 'L', 'Q']
_REF_CACHE = {}


def small_scene():
    return st.one_of(S.scene_layered(max_layers=3, n_t=(5, 20), n_ceilos=(1, 2)),
                     S.scene_split_candidate(), S.scene_merge_chain())


@st.composite
def chunks_strategy(draw, n=(2, 3)):
    k = draw(st.integers(*n))
    out = []
    for _ in range(k):
        sc = draw(small_scene())
        prms = draw(S.leaf_assignment(1, 5))
        if 'MIN_SEP_VALS' not in prms and (sc.get('hint') or {}).get('min_sep'):
            prms['MIN_SEP_VALS'] = [sc['hint']['min_sep']] * 2
        out.append({'rows': sc['rows'][:120], 'prms': prms})
    return out


@st.composite
def sched_case(draw):
    chunks = draw(chunks_strategy())
    d = draw(st.integers(1, 40))
    switches = draw(st.lists(st.tuples(st.integers(0, 9999), st.integers(0, 5)), min_size=d, max_size=d))
    return {'kind': 'sched', 'chunks': chunks, 'switches': [list(s) for s in switches]}


def strategy(tier):
    return sched_case()


@st.composite
def gmm_sensitive_chunk(draw):
    """ One group of two overlapping height modes with unequal weights: which hit goes to which sub-layer
    depends on the fitted mixture itself, so a foreign or stale mixture shows in the result. """
    n = draw(st.integers(40, 70))
    base = draw(st.sampled_from([800, 2000, 4000]))
    spread = draw(st.sampled_from([200, 300, 400]))
    gap = round(spread * draw(st.sampled_from([0.7, 1.0, 1.3])))
    frac2 = draw(st.sampled_from([15, 30, 50, 70, 85]))
    noise = S.ints(draw, 0, 1000, n)
    pick = S.ints(draw, 0, 99, n)
    rows = []
    for i in range(n):
        lo = pick[i] >= frac2
        h = base + (0 if lo else gap + spread // 2) + spread * noise[i] / 1000
        rows.append(['a', -900.0 + 15.0 * i, float(round(h)), 1])
    prms = {'MIN_SEP_VALS': [draw(st.sampled_from([50, 100])), 1000], 'MIN_SEP_LIMS': [10000], 'MAX_HITS_OKTA0': 1,
            'MSA': draw(st.sampled_from([None, 10000, 25000])),
            'SLICING_PRMS': {'distance_threshold': 0.5, 'height_scale_kwargs': {'min_range': 5000}}}
    return {'rows': rows, 'prms': prms}


@st.composite
def prm_pair(draw):
    """ The same hits in both chunks, but every parameter leaf set to a different value in the two per-call
    dicts: whatever single parameter leaks from one chunk into the other moves a result that, in isolation,
    is known to differ. """
    sc = draw(S.scene({'merge_chain': 3, 'split_candidate': 2, 'layered': 2, 'double_split': 1}))
    rows = sc['rows'][:140]
    p1, p2 = {}, {}
    for path in sorted(S.LEAF_DOMAINS):
        dom = S.LEAF_DOMAINS[path]
        if path == ('MSA',):
            dom = [None, 10000, 25000]       # keep most hits in play in both chunks
        i = draw(st.integers(0, len(dom) - 1))
        j = (i + draw(st.integers(1, len(dom) - 1))) % len(dom)
        for prms, val in ((p1, dom[i]), (p2, dom[j])):
            if path == ('MIN_SEP',):
                prms['MIN_SEP_VALS'], prms['MIN_SEP_LIMS'] = list(val[0]), list(val[1])
            else:
                S.set_path(prms, path, list(val) if isinstance(val, list) else val)
    for prms in (p1, p2):
        prms['EXCLUDE_FOR_BASE_HEIGHT_CALC'] = []
    return [{'rows': rows, 'prms': p1}, {'rows': rows, 'prms': p2}]


def rng_sensitive_corpus():
    import glob
    import json
    import os
    out = []
    for pth in sorted(glob.glob(os.path.join(runner.VERIF, 'corpus', 'rng_sensitive', '*.json'))):
        with open(pth, encoding='utf-8') as fil:
            c = json.load(fil)['case']
        out.append({'rows': c['rows'], 'prms': c['prms']})
    return out


@st.composite
def gmm_pair(draw):
    """ Two chunks that both engage the mixture model, with different data and parameters; the second one is
    taken from the committed corpus of scenes whose layering depends on the mixture model's random seed
    (tools/find_rng_sensitive.py), so that leaked random state would show. """
    corpus = rng_sensitive_corpus()
    first = draw(gmm_sensitive_chunk())
    second = corpus[draw(st.integers(0, len(corpus) - 1))] if corpus else draw(gmm_sensitive_chunk())
    # both chunks also emit documented warnings while they run (an unknown per-call key at construction, a
    # ceilometer exclusion that falls back): process-wide warning machinery is shared state too
    first = {'rows': first['rows'], 'prms': dict(first['prms'], UNKNOWN_KEY_FOR_A_WARNING=1)}
    second = {'rows': second['rows'], 'prms': dict(second['prms'], UNKNOWN_KEY_FOR_A_WARNING=1,
                                                   EXCLUDE_FOR_BASE_HEIGHT_CALC=['a'], MAX_HITS_OKTA0=1)}
    return [first, second]


def chunk_snapshot(chunk, msg):
    snap = observe.snapshot(chunk)
    snap['prms'] = copy.deepcopy(chunk.prms)
    snap['returned_msg'] = msg
    return snap


def reference(spec):
    import ampycloud
    chunk = ampycloud.run(observe.build_frame(spec['rows']), prms=copy.deepcopy(spec['prms']))
    return chunk_snapshot(chunk, chunk.metar_msg())


def compare(res, refs, snaps, what, detail=''):
    for i, (ref, got) in enumerate(zip(refs, snaps)):
        if got is None:
            continue
        pr, pg = ref['prms'], got['prms']
        if pr != pg:
            res.fail('interference', f'chunk parameters differ from the isolated run ({what})', f'chunk {i} {detail}')
            continue
        a = {k: v for k, v in ref.items() if k != 'prms'}
        b = {k: v for k, v in got.items() if k != 'prms'}
        dd = observe.diff_snap(a, b)
        if dd:
            res.fail('interference', f'chunk result differs from the isolated run ({what})', f'chunk {i}: {dd} {detail}')


def run_interleaving(specs, order, with_msg):
    """ order: list of chunk indices; k-th occurrence of i = k-th step of chunk i. """
    from ampycloud.data import CeiloChunk
    chunks = [None] * len(specs)
    pos = [0] * len(specs)
    msgs = [None] * len(specs)
    for i in order:
        step = pos[i]
        pos[i] += 1
        if step == 0:
            chunks[i] = CeiloChunk(observe.build_frame(specs[i]['rows']), prms=copy.deepcopy(specs[i]['prms']))
            chunks[i].find_slices()
        elif step == 1:
            chunks[i].find_groups()
        elif step == 2:
            chunks[i].find_layers()
            if not with_msg:
                msgs[i] = chunks[i].metar_msg()
        elif step == 3:
            msgs[i] = chunks[i].metar_msg()
    return [chunk_snapshot(c, m) for c, m in zip(chunks, msgs)]


def count_steps(specs):
    """ Total number of ampycloud line events of the sequential runs (deterministic). """
    sc = sched.Scheduler(())
    sc.run([lambda s=s: reference(s) for s in specs[:1]] )
    first = sc.steps
    total = first
    for s in specs[1:]:
        sc2 = sched.Scheduler(())
        sc2.run([lambda s=s: reference(s)])
        total += sc2.steps
    return total


def check(case):
    import ampycloud
    from ampycloud import dynamic
    res = Result()
    specs = case['chunks']
    ampycloud.reset_prms()
    g_before = copy.deepcopy(dynamic.AMPYCLOUD_PRMS)
    try:
        key = runner.digest(specs)
        if key not in _REF_CACHE:
            _REF_CACHE.clear()
            _REF_CACHE[key] = [reference(s) for s in specs]
        refs = _REF_CACHE[key]
    except Exception as exc:
        res.skipped = 'reference run crashed: ' + observe.crash_sig(exc)
        return res
    kind = case['kind']
    res.labels = [kind, f'{len(specs)}-chunks']
    # the ambient global NumPy random state is part of the environment: vary it with the case, so that code
    # leaking or borrowing global random state sees a different one in every schedule
    import numpy as _np
    _np.random.seed(int(runner.digest([case.get('order'), case.get('switches'), case.get('abs_switches'),
                                       case.get('loc_plan'), key]), 16) % (2 ** 32))
    if kind == 'interleave':
        try:
            snaps = run_interleaving(specs, case['order'], case.get('with_msg', True))
            compare(res, refs, snaps, 'stage interleaving', f"order={case['order']}")
        except Exception as exc:
            res.fail('interference', 'interleaved stages crashed although isolated runs do not: '
                     + observe.crash_sig(exc), f"order={case['order']} {exc!r}")
        res.evals = len(specs)
        blocks = sum(1 for a, b in zip(case['order'], case['order'][1:]) if a != b)
        res.nontrivial = blocks >= len(specs)
        res.key = [runner.digest(specs), case['order']]
        res.sample = {'kind': kind, 'n_rows': [len(s['rows']) for s in specs], 'prms': [s['prms'] for s in specs],
                      'order': case['order']}
    elif kind == 'sched':
        loc_plan = case.get('loc_plan') or ()
        if loc_plan:
            switches = []
        elif 'abs_switches' in case:
            switches = [tuple(x) for x in case['abs_switches']]
        else:
            total = count_steps(specs)
            switches = sorted((max(1, int(frac * total / 10000)), tgt) for frac, tgt in case['switches'])
        sc = sched.Scheduler(switches, loc_plan=loc_plan)
        snaps = sc.run([lambda s=s: reference(s) for s in specs])
        if sc.errors:
            i, exc = sorted(sc.errors.items())[0]
            res.fail('interference', 'scheduled thread crashed although the isolated run does not: '
                     + observe.crash_sig(exc), f'chunk {i} {exc!r} switches={sc.switch_log[:10]}')
        compare(res, refs, snaps, 'thread schedule', f'switch log={sc.switch_log[:12]} total_steps={sc.steps}')
        res.evals = len(specs)
        res.nontrivial = len(sc.switch_log) >= 1
        res.labels.append(f'switches:{min(len(sc.switch_log) // 5 * 5, 40)}+')
        res.key = [runner.digest(specs), sc.switch_log]
        res.sample = {'kind': kind, 'n_rows': [len(s['rows']) for s in specs], 'prms': [s['prms'] for s in specs],
                      'total_line_steps': sc.steps, 'executed_switches': sc.switch_log[:10]}
    elif kind == 'free':
        old = sys.getswitchinterval()
        sys.setswitchinterval(1e-6)
        snaps = [None] * len(specs)
        errs = {}

        def body(i):
            try:
                snaps[i] = reference(specs[i])
            except BaseException as exc:  # noqa
                errs[i] = exc
        try:
            ths = [threading.Thread(target=body, args=(i,)) for i in range(len(specs))]
            for t in ths:
                t.start()
            for t in ths:
                t.join()
        finally:
            sys.setswitchinterval(old)
        if errs:
            i, exc = sorted(errs.items())[0]
            res.fail('interference', 'free-running thread crashed although the isolated run does not: '
                     + observe.crash_sig(exc), f'chunk {i} {exc!r}')
        compare(res, refs, snaps, 'free-running threads')
        res.evals = len(specs)
        res.nontrivial = True
        res.key = [runner.digest(specs), 'free']
        res.sample = {'kind': kind, 'n_rows': [len(s['rows']) for s in specs]}
    if dynamic.AMPYCLOUD_PRMS != g_before:
        res.fail('global', 'global parameters changed', '')
        ampycloud.reset_prms()
    return res


def interleavings(counts):
    """ All distinct orderings of the multiset {i repeated counts[i]}. """
    items = [i for i, c in enumerate(counts) for _ in range(c)]
    seen = set()
    for perm in itertools.permutations(items):
        if perm not in seen:
            seen.add(perm)
            yield list(perm)


def multiset_orderings(counts):
    def rec(rem, acc):
        if not any(rem):
            yield list(acc)
            return
        for i, c in enumerate(rem):
            if c:
                rem[i] -= 1
                acc.append(i)
                yield from rec(rem, acc)
                acc.pop()
                rem[i] += 1
    yield from rec(list(counts), [])


def jobs(tier, seed):
    out = []
    for i in range(N_PAIRS[tier]):
        out.append({'name': f'pairs-{i}', 'what': 'pairs', 'seed': runner.derive_seed(seed, ID, 'pairs', i)})
    for i in range(N_TRIPLES[tier]):
        out.append({'name': f'triples-{i}', 'what': 'triples', 'seed': runner.derive_seed(seed, ID, 'triples', i),
                    'part': i, 'parts': N_TRIPLES[tier]})
    for pair in range(N_PB1[tier]):
        for role in ((0,) if tier == 'quick' else (0, 1)):
            for part in range(8):
                out.append({'name': f'pb1-{pair}-{role}-{part}', 'what': 'pb1', 'role': role, 'part': part, 'parts': 8,
                            'seed': runner.derive_seed(seed, ID, 'pb1', pair)})
    for pair in range(N_RV[tier]):
        for part in range(16):
            out.append({'name': f'rv-{pair}-{part}', 'what': 'rv', 'part': part, 'parts': 16,
                        'occs': [1, 2] if tier == 'quick' else [1, 2, 3],
                        'seed': runner.derive_seed(seed, ID, 'pb1', pair)})
    for pair in range(N_RV[tier]):
        for part in range(8):
            out.append({'name': f'rvp-{pair}-{part}', 'what': 'rv', 'pairs': 'prm', 'part': part, 'parts': 8,
                        'occs': [1] if tier == 'quick' else [1, 2],
                        'seed': runner.derive_seed(seed, ID, 'rvp', pair)})
    nsh = 16
    for i in range(nsh):
        out.append({'name': f'sched-{i}', 'what': 'sched', 'seed': runner.derive_seed(seed, ID, 'sched', i),
                    'n': N_SCHED[tier] // nsh})
    for i in range(min(16, N_FREE[tier])):
        out.append({'name': f'free-{i}', 'what': 'free', 'seed': runner.derive_seed(seed, ID, 'free', i),
                    'n': max(1, N_FREE[tier] // 16)})
    return out


def draw_examples(strategy, n, seed):
    """ n examples of a strategy, reproducibly (Hypothesis is the only source of randomness). """
    import hypothesis
    from hypothesis import HealthCheck, Phase, given, settings
    out = []

    @hypothesis.seed(seed)
    @settings(max_examples=n, database=None, deadline=None, suppress_health_check=list(HealthCheck),
              phases=[Phase.generate])
    @given(strategy)
    def grab(x):
        out.append(x)
    grab()
    return out


def run_job(job, ctx):
    mod = sys.modules[__name__]
    what = job['what']
    if what == 'sched':
        runner.hyp_explore(mod, ctx, sched_case(), job['n'], job['seed'])
    elif what == 'free':
        runner.hyp_explore(mod, ctx, chunks_strategy().map(lambda c: {'kind': 'free', 'chunks': c}), job['n'],
                           job['seed'])
    elif what == 'pb1':
        # preemption bound 1, systematically: thread A is pre-empted once, at the first execution of each
        # distinct ampycloud source line of its run; B then runs to completion and A resumes.
        specs = draw_examples(gmm_pair(), 4, job['seed'])[-1]
        if job['role'] == 1:
            specs = specs[::-1]
        rec = sched.Scheduler(())
        rec.run([lambda: reference(specs[0])])
        # first execution of every distinct line, plus the 2nd and 3rd execution of the lines that run only a
        # few times (short loops such as "one mixture fit per number of components")
        steps = set(rec.first_seen.values())
        for loc, lst in rec.seen_steps.items():
            if 2 <= len(lst) <= 9:
                steps.update(lst[1:3])
        steps = sorted(steps)
        mine = steps[job['part']::job['parts']]
        for stp in mine:
            case = {'kind': 'sched', 'chunks': specs, 'abs_switches': [[stp, 0]]}
            ctx.record(case, check(case))
        if job['part'] == 0:
            ctx.stats.exhaustive.append(f'one pre-emption of thread A at {len(steps)} points: the first execution of each distinct ampycloud '
                                        'source line of its run, plus the 2nd and 3rd execution of lines run 2-9 times (B runs to completion, A resumes), '
                                        'for each drawn mixture-model pair and both role assignments')
    elif what == 'rv':
        # rendezvous: A runs up to its first execution of source line L, then B runs up to *its* first execution
        # of the same line, then A finishes, then B finishes - for every distinct line L of A's run
        specs = draw_examples(prm_pair() if job.get('pairs') == 'prm' else gmm_pair(), 4, job['seed'])[-1]
        rec = sched.Scheduler(())
        rec.run([lambda: reference(specs[0])])
        locs = sorted(((f.split('/ampycloud/')[-1], fn, ln) for (f, fn, ln) in rec.first_seen),
                      key=lambda l: rec.first_seen[next(k for k in rec.first_seen
                                                        if (k[0].split('/ampycloud/')[-1], k[1], k[2]) == l)])
        for loc in locs[job['part']::job['parts']]:
            for occ in job['occs']:
                case = {'kind': 'sched', 'chunks': specs, 'loc_plan': [[0, list(loc), 1, 1], [1, list(loc), 0, occ]]}
                res = check(case)
                if occ > 1 and res.sample and len(res.sample.get('executed_switches', [])) < 2:
                    res.nontrivial = False      # B never reached that occurrence: same as plain pre-emption
                ctx.record(case, res)
        if job['part'] == 0:
            ctx.stats.exhaustive.append(f'rendezvous schedules: both threads stopped at the same source line, for each of '
                                        f'the {len(locs)} distinct ampycloud lines of thread A\'s run, for each drawn pair')
    elif what == 'pairs':
        specs = [s for s in draw_examples(chunks_strategy(n=(2, 2)), 3, job['seed'])][-1]
        n = 0
        for order in multiset_orderings([4, 4]):
            case = {'kind': 'interleave', 'chunks': specs, 'order': order, 'with_msg': True}
            ctx.record(case, check(case))
            n += 1
        ctx.stats.exhaustive.append('all 70 interleavings of the 4-step sequences of 2 chunks, for each drawn pair')
    elif what == 'triples':
        specs = [s for s in draw_examples(chunks_strategy(n=(3, 3)), 3, job['seed'])][-1]
        allo = list(multiset_orderings([3, 3, 3]))
        want = TRIPLE_SAMPLES[job['tier']]
        if want >= len(allo):
            chosen = allo
            ctx.stats.exhaustive.append('all 1680 interleavings of the 3 stages of 3 chunks, for each drawn triple')
        else:
            picks = draw_examples(st.lists(st.integers(0, len(allo) - 1), min_size=want, max_size=want, unique=True),
                                  2, job['seed'])[-1]
            chosen = [allo[i] for i in picks]
        for order in chosen:
            case = {'kind': 'interleave', 'chunks': specs, 'order': order, 'with_msg': False}
            ctx.record(case, check(case))
