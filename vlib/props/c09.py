"""C09 - results are bit-for-bit reproducible and the global random state is left alone."""
import copy
import hashlib
import json
import os
import subprocess
import sys

import numpy as np
from hypothesis import strategies as st

from vlib import observe, oracles, strategies as S
from vlib import runner
from vlib.runner import Result

ID = 'C09'
RULE = ('Cases = scene (split_candidate 50%, layered, merge_chain, ref_window, canonical demo data) x parameters x an '
        'arbitrary prior global NumPy RNG state (seed + k uniform draws + 0-3 normal draws, so that states holding a cached '
        'Gaussian occur) x a history of 0-5 intermediate ops (draw from the global '
        'RNG, run another scene, run the same hits under other parameters, canonical_demo_data(), a tmp_seed block whose body raises, default_rng use). Oracle: (a) '
        'numpy.random.get_state() is bit-identical before and after every ampycloud call (run, metar_msg, '
        'canonical_demo_data, raising tmp_seed body); (b) the SHA-1 digest of the snapshot (three tables, chunk.data with '
        'per-hit ids, three messages, flag) of the case is the same before and after the history, under different prior '
        'RNG states; (c) differential across processes: each shard re-evaluates all its cases in 3 fresh interpreters '
        'started with PYTHONHASHSEED in {1, 4242, random}, in reversed / rotated order - the second one processing the same hits under other parameters right before each case - and every digest must equal the '
        'in-process one (the harness itself runs with PYTHONHASHSEED=0). Thread counts are pinned to 1. Non-trivial = the '
        'mixture model was engaged (a group with ncomp != -1). Distinct by (digest, history kinds).')
ASSUMPTIONS = ['numerical-library thread counts fixed at 1 (OMP/OPENBLAS/MKL_NUM_THREADS=1), as the quantifier states',
               'one machine, one BLAS build: cross-platform reproducibility is out of reach',
               'crashes of run() are left to C08']
BUDGET = {'quick': 0, 'thorough': 0}
CORPUS = ['pipeline', 'rng_sensitive']


def from_corpus(case):
    return dict(case, rng=[20240517, 3, 1], history=['draw', 'tmp_seed_raise', 'same_data_other_prms', 'run_other'],
                alt_prms={'LOWESS': {'frac': 0.9, 'it': 1}, 'MAX_HITS_OKTA0': 0, 'GROUPING_PRMS': {'dt_scale': 60}},
                other_rows=[['a', -10.0, 1000.0, 1], ['a', -5.0, 1010.0, 1]])
CASES = {'quick': 176, 'thorough': 3200}
WEIGHTS = {'split_candidate': 8, 'layered': 3, 'merge_chain': 2, 'ref_window': 2, 'degenerate': 1}
HIST_OPS = ['draw', 'run_other', 'demo', 'tmp_seed_raise', 'default_rng', 'legacy_seed', 'same_data_other_prms',
            'same_data_other_prms']
_COLLECT = []


@st.composite
def strategy_(draw):
    case = draw(S.pipeline_case(WEIGHTS, vary=('sep', 'base', 'msa'), p_default_prms=0.4))
    if draw(st.integers(0, 19)) == 0:
        case = {'cls': 'demo', 'rows': None, 'prms': {'MSA': 10000}}
    case['rng'] = [draw(st.integers(0, 2 ** 32 - 1)), draw(st.integers(0, 50)), draw(st.integers(0, 3))]
    case['history'] = draw(st.lists(st.sampled_from(HIST_OPS), max_size=5))
    case['alt_prms'] = draw(S.leaf_assignment(1, 4))
    other = draw(S.scene_layered(max_layers=2, n_t=(3, 15), n_ceilos=(1, 2)))
    case['other_rows'] = other['rows'][:60]
    return case


def strategy(tier):
    return strategy_()


def rows_of(case):
    if case['rows'] is None:
        from ampycloud.utils import mocker
        df = mocker.canonical_demo_data()
        return [[c, d, None if h != h else h, t] for c, d, h, t in
                zip(df['ceilo'].tolist(), df['dt'].tolist(), df['height'].tolist(), df['type'].tolist())]
    return case['rows']


def state_sig():
    s = np.random.get_state()
    return (s[0], hashlib.sha1(s[1].tobytes()).hexdigest(), int(s[2]), int(s[3]), float(s[4]))


def digest_of(case):
    """ -> (digest, engaged) """
    rows = rows_of(case)
    chunk = observe.run_case({'rows': rows, 'prms': case['prms']})
    snap = observe.snapshot(chunk)
    engaged = any(int(v) != -1 for v in chunk.groups['ncomp'].tolist()) if chunk.groups is not None else False
    return hashlib.sha1(json.dumps(snap, sort_keys=True).encode()).hexdigest(), engaged


def guarded(res, what, fn):
    """ Run fn() and demand an unchanged global RNG state. """
    before = state_sig()
    out = None
    try:
        out = fn()
    finally:
        if state_sig() != before:
            res.fail('rng', f'global NumPy random state changed by {what}', '')
    return out


def check(case):
    from ampycloud.utils import mocker, utils
    res = Result()
    res.labels = [case['cls']]
    np.random.seed(case['rng'][0])
    np.random.random(case['rng'][1])
    if len(case['rng']) > 2 and case['rng'][2]:
        np.random.normal(size=case['rng'][2])   # an odd count leaves a cached Gaussian in the state
        res.labels.append('cached-gaussian' if case['rng'][2] % 2 else 'normal-draws')
    try:
        d1, engaged = guarded(res, 'run()/metar_msg()', lambda: digest_of(case))
    except Exception as exc:
        res.skipped = 'run crashed: ' + observe.crash_sig(exc)
        return res
    res.evals = 2
    for op in case['history']:
        if op == 'draw':
            np.random.random(7)
            np.random.randint(0, 10, 3)
            np.random.normal(size=1 + case['rng'][1] % 2)
        elif op == 'legacy_seed':
            np.random.seed((case['rng'][0] * 7 + 1) % 2 ** 32)
        elif op == 'default_rng':
            np.random.default_rng(case['rng'][0]).normal(size=5)
        elif op == 'run_other':
            try:
                guarded(res, 'run() on another scene',
                        lambda: observe.run_case({'rows': case['other_rows'], 'prms': {}}).metar_msg())
            except Exception:
                pass
        elif op == 'same_data_other_prms':
            # the very same hits under other parameters: anything ampycloud remembers about the data must be
            # keyed on the parameters too
            try:
                alt = S.merge_dict(case['prms'], case.get('alt_prms') or {'LOWESS': {'frac': 0.9, 'it': 1}})
                guarded(res, 'run() on the same data with other parameters',
                        lambda: observe.run_case({'rows': rows_of(case), 'prms': alt}).metar_msg())
            except Exception:
                pass
        elif op == 'demo':
            a = guarded(res, 'canonical_demo_data()', mocker.canonical_demo_data)
            b = mocker.canonical_demo_data()
            if not a.equals(b):
                res.fail('demo', 'canonical_demo_data() not reproducible', '')
        elif op == 'tmp_seed_raise':
            draws = {}
            for sd in (0, 1, 123, 2 ** 32 - 1):
                for raising in (True, False):
                    def body(sd=sd, raising=raising):
                        try:
                            with utils.tmp_seed(sd):
                                draws.setdefault(sd, []).append(np.random.random(3).tolist())
                                if raising:
                                    raise ValueError('boom')
                        except ValueError:
                            pass
                    guarded(res, f'a tmp_seed({sd}) block whose body ' + ('raises' if raising else 'completes'), body)
                    np.random.random(1)      # move the ambient state between the two blocks
                if draws[sd][0] != draws[sd][1]:
                    res.fail('rng', f'draws inside tmp_seed({sd}) depend on the ambient random state', '')
    try:
        d2, _ = guarded(res, 'run()/metar_msg() (second time)', lambda: digest_of(case))
        if d2 != d1:
            res.fail('repeat', 'same data and parameters gave a different result later in the same process',
                     f'history={case["history"]}')
    except Exception as exc:
        res.fail('repeat', 'second run crashed although the first did not: ' + observe.crash_sig(exc), repr(exc))
    if case.get('xproc') is not None:
        got = remote_digests([case], str(case['xproc']), pre_alt=(str(case['xproc']) == '4242'))
        if got and got[0] != d1:
            res.fail('xproc', 'a fresh interpreter gives a different result',
                     f"PYTHONHASHSEED={case['xproc']} {got[0]} vs {d1}")
        res.evals += 1
    res.nontrivial = engaged
    if engaged:
        res.labels.append('gmm-engaged')
    res.labels += ['hist:' + h for h in sorted(set(case['history']))]
    res.key = [d1, sorted(set(case['history']))]
    res.sample = {'cls': case['cls'], 'n_rows': len(rows_of(case)), 'prms': case['prms'], 'rng': case['rng'],
                  'history': case['history'], 'digest': d1}
    _COLLECT.append((case, d1))
    return res


def remote_digests(cases, hashseed, pre_alt=False):
    env = dict(os.environ, PYTHONHASHSEED=hashseed)
    if hashseed == 'random':
        env['PYTHONHASHSEED'] = 'random'
    payload = json.dumps([{'rows': c['rows'], 'prms': c['prms'], 'cls': c['cls'],
                           'pre_alt': (c.get('alt_prms') or {'LOWESS': {'frac': 0.9, 'it': 1}}) if pre_alt else None}
                          for c in cases])
    out = subprocess.run([sys.executable, '-m', 'vlib.props.c09'], input=payload, env=env, cwd=runner.VERIF,
                         capture_output=True, text=True)
    if out.returncode != 0:
        raise RuntimeError('c09 worker failed: ' + out.stderr[-800:])
    return json.loads(out.stdout.strip().splitlines()[-1])


def jobs(tier, seed):
    n = CASES[tier]
    return [{'name': f'batch-{i}', 'seed': runner.derive_seed(seed, ID, 'batch', i), 'n': n // 16}
            for i in range(16)]


def scripted_cases():
    """ Hand-written cases that every run evaluates in-process and in the three fresh interpreters: three
    instruments sharing one deck at different heights, one of them excluded, look-back below 100 (anything that
    orders instruments through a hash-ordered container shows up as a digest difference between hash seeds). """
    out = []
    for names in (['A', 'B', 'C'], ['zulu', 'alpha', 'mike', 'x1']):
        rows = []
        for i in range(16):
            for k, nm in enumerate(names):
                rows.append([nm, -900.0 + 55.0 * i + k, 1000.0 + 37.0 * k + (i * 7) % 23, 1])
        for lb in (50, 30):
            out.append({'cls': 'scripted', 'rows': rows, 'rng': [7, 2, 1], 'history': ['draw'],
                        'other_rows': rows[:6], 'alt_prms': {'LOWESS': {'frac': 0.8}},
                        'prms': {'EXCLUDE_FOR_BASE_HEIGHT_CALC': [names[0]], 'BASE_LVL_LOOKBACK_PERC': lb,
                                 'BASE_LVL_HEIGHT_PERC': 50}})
    return out


def run_job(job, ctx):
    mod = sys.modules[__name__]
    del _COLLECT[:]
    if job['name'] == 'batch-0':
        for case in scripted_cases():
            ctx.record(case, check(case))
    runner.hyp_explore(mod, ctx, strategy(job['tier']), job['n'], job['seed'])
    done = [(c, d) for c, d in _COLLECT]
    if not done:
        return
    orders = {'1': list(reversed(range(len(done)))),
              '4242': list(range(len(done) // 2, len(done))) + list(range(len(done) // 2)),
              'random': list(range(len(done)))}
    for hs, order in orders.items():
        # the interpreter started with hash seed 4242 first processes the same hits under other parameters
        # (a different history than the in-process evaluation, where the case itself came first)
        got = remote_digests([done[i][0] for i in order], hs, pre_alt=(hs == '4242'))
        ctx.stats.evaluations += len(order)
        for i, g in zip(order, got):
            if g != done[i][1]:
                res = Result()
                res.evals = 0
                res.fail('xproc', 'a fresh interpreter gives a different result',
                         f'PYTHONHASHSEED={hs}: {g} vs {done[i][1]}')
                ctx.record(dict(done[i][0], xproc=hs), res)
                ctx.stats.cases -= 1
        ctx.stats.labels['xproc:PYTHONHASHSEED=' + hs] += len(order)


if __name__ == '__main__':
    # worker: read cases from stdin, print the list of digests
    runner.setup_path()
    out = []
    for c in json.loads(sys.stdin.read()):
        try:
            if c.get('pre_alt'):
                try:
                    observe.run_case({'rows': rows_of(c), 'prms': S.merge_dict(c['prms'], c['pre_alt'])}).metar_msg()
                except Exception:  # noqa
                    pass
            out.append(digest_of(c)[0])
        except Exception as exc:  # noqa
            out.append('crash:' + type(exc).__name__)
    print(json.dumps(out))
