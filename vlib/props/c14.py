"""C14 - any order of stage calls raises AmpycloudError or gives the canonical result."""
import copy
import itertools

from hypothesis import strategies as st

from vlib import observe, oracles, strategies as S
from vlib import runner
from vlib.runner import Result

ID = 'C14'
OPS = ['S', 'G', 'L', 'Ms', 'Mg', 'Ml', 'Qs', 'Qg', 'Ql', 'O']
RULE = ('Op alphabet (10): find_slices, find_groups, find_layers, metarize(slices|groups|layers), '
        'metar_msg(slices|groups|layers) and a read-only observe op (n_slices/n_groups/n_layers, max_hits_per_layer, '
        'ceilos, data_rescaled()). (a) Exhaustive call tree over all sequences up to depth 4 (quick) / 5 (thorough) by DFS '
        'with deep-copied chunks on fixed data sets: one where groups merge, one where a group splits in two layers, one where a '
        'group splits in three below a two-valued deck, one without any valid hit (+ the canonical demo data in thorough); (b) Hypothesis-drawn sequences of up to 14 ops on '
        'generated merge_chain / split_candidate / layered / degenerate scenes with generated parameters, executed on '
        'fresh chunks. Oracle = stage model with references snapshotted from one canonical run after each stage: a call '
        'may raise AmpycloudError only when the model says a prerequisite is missing or the call would rewrite the '
        'grouping after the layering (then tables, id columns and messages must be unchanged); otherwise it must succeed '
        'and every table must equal the canonical table as the last stage that legitimately wrote it left it (slices: '
        'isolation assessed by the grouping or not; groups: ncomp set by the layering or not), id columns and messages '
        'must equal the canonical ones; any other exception type is a violation. Non-trivial = the sequence contains a '
        'permitted repeat or a refused call after at least one stage ran, on a data set where merging or splitting '
        'occurred. Distinct by (data set digest, op sequence).')
ASSUMPTIONS = ['tables are compared stage-relative: slices.isolated and groups.ncomp are annotations written by the later '
               'stage, so re-running an earlier stage legitimately resets them',
               'deep copies of a chunk behave like the chunk (used by the DFS only; the Hypothesis histories run on fresh '
               'chunks as a cross-check)']
BUDGET = {'quick': 320, 'thorough': 6000}
DEPTH = {'quick': 4, 'thorough': 5}
WEIGHTS = {'merge_chain': 5, 'split_candidate': 5, 'layered': 2, 'degenerate': 1}


# ------------------------------------------------------------------------------------------------
# fixed data sets for the exhaustive tree


def dataset(name):
    rows = []
    if name == 'merging':
        # two thin layers 200 ft apart seen by different instruments -> separate slices, merged as groups
        for i in range(40):
            rows.append(['a', -900.0 + 20 * i, 2500.0 + (i * 7) % 30, 1])
            rows.append(['b', -895.0 + 20 * i, 2700.0 + (i * 11) % 30, 1])
        rows.append(['a', -5.0, None, 0])
        return {'rows': rows, 'prms': {'SLICING_PRMS': {'distance_threshold': 0.05}}}
    if name == 'splitting':
        for i in range(45):
            rows.append(['a', -900.0 + 20 * i, 1000.0 + (i * 13) % 60, 1])
            rows.append(['a', -900.0 + 20 * i, 1600.0 + (i * 17) % 60, 2])
        for i in range(0, 45, 3):
            rows.append(['b', -899.0 + 20 * i, 9000.0, 1])
        return {'rows': rows, 'prms': {}}
    if name == 'split3':
        # a lower deck made of three thin sub-layers 300 ft apart (one group, split in three) below a quantised
        # deck holding exactly two distinct heights (>= 30 hits): the two groups go through different paths of
        # the layering step
        for i in range(48):
            dt = -940.0 + 20 * i
            rows.append(['a', dt, 1000.0 + (i * 13) % 40, 1])
            rows.append(['a', dt, 1300.0 + (i * 17) % 40, 2])
            rows.append(['a', dt, 1600.0 + (i * 7) % 40, 3])
            rows.append(['b', dt + 3, 6000.0 + 10 * (i % 2), 1])
        return {'rows': rows, 'prms': {'MIN_SEP_VALS': [100, 1000]}}
    if name == 'nohits':
        return {'rows': [['a', -900.0 + 60 * i, None, 0] for i in range(10)], 'prms': {'MSA': 5000}}
    if name == 'demo':
        from ampycloud.utils import mocker
        df = mocker.canonical_demo_data()
        rows = [[c, d, None if h != h else h, t] for c, d, h, t in
                zip(df['ceilo'].tolist(), df['dt'].tolist(), df['height'].tolist(), df['type'].tolist())]
        return {'rows': rows, 'prms': {'MSA': 10000}}
    raise ValueError(name)


DATASETS = {'quick': ['merging', 'splitting', 'split3', 'nohits'],
            'thorough': ['merging', 'splitting', 'split3', 'nohits', 'demo']}


# ------------------------------------------------------------------------------------------------
# interpreter = implementation + stage model side by side


def snap(chunk):
    out = {'slices': observe.table_snapshot(chunk.slices), 'groups': observe.table_snapshot(chunk.groups),
           'layers': observe.table_snapshot(chunk.layers)}
    d = chunk.data
    for col in ('slice_id', 'group_id', 'layer_id'):
        out[col] = [observe.fhex(v) for v in d[col].tolist()] if col in d.columns else None
    out['rows'] = [d[c].map(observe.fhex).tolist() for c in ('ceilo', 'dt', 'height', 'type')]
    return out


class Canon:
    """ References from one canonical slices-groups-layers run. """

    def __init__(self, case):
        from ampycloud.data import CeiloChunk
        self.case = case
        with observe.GlobalPrms(None):
            ch = CeiloChunk(observe.build_frame(case['rows']), prms=copy.deepcopy(case['prms']))
            self.fresh = copy.deepcopy(ch)
            ch.find_slices()
            s1 = snap(ch)
            ch.find_groups()
            s2 = snap(ch)
            ch.find_layers()
            s3 = snap(ch)
            self.msgs = {w: ch.metar_msg(w) for w in ('slices', 'groups', 'layers')}
        self.slices = {'S': s1['slices'], 'G': s2['slices']}
        self.groups = {'G': s2['groups'], 'L': s3['groups']}
        self.layers = s3['layers']
        self.ids = {'slice_id': s1['slice_id'], 'group_id': s3['group_id'], 'layer_id': s3['layer_id']}
        self.ids_pre = {'group_id': s2['group_id']}
        self.rows = s3['rows']
        self.merged_or_split = (len(set(s1['slice_id'])) != len(set(s3['group_id']))) or \
            (len(set(s3['layer_id'])) != len(set(s3['group_id'])))
        self.sizes = [ch.n_slices, ch.n_groups, ch.n_layers]


class Model:
    def __init__(self):
        self.s = self.g = self.l = False
        self.sv = self.gv = None

    def copy(self):
        m = Model()
        m.__dict__.update(self.__dict__)
        return m

    def step(self, op, force=False):
        """ -> ('err', why) or ('ok', None); updates the state when ok (or when forced: the state the
        call would legitimately produce if the implementation chose to accept it). """
        if op == 'S':
            self.s, self.sv = True, 'S'
        elif op == 'G':
            if not self.s and not force:
                return 'err', 'slices missing'
            if self.l and not force:
                return 'err', 'would discard the layering'
            self.g, self.sv, self.gv = True, 'G', 'G'
        elif op == 'L':
            if not self.g and not force:
                return 'err', 'groups missing'
            self.l, self.gv = True, 'L'
        elif op == 'Ms':
            if not self.s and not force:
                return 'err', 'slices missing'
            self.sv = 'S'
        elif op == 'Mg':
            if not self.g and not force:
                return 'err', 'groups missing'
            if self.l and not force:
                return 'err', 'would discard the layering'
            self.gv = 'G'
        elif op == 'Ml':
            if not self.l and not force:
                return 'err', 'layers missing'
        elif op in ('Qs', 'Qg', 'Ql'):
            if not {'Qs': self.s, 'Qg': self.g, 'Ql': self.l}[op] and not force:
                return 'err', 'table missing'
        return 'ok', None

    def predicted(self, canon):
        return {'slices': canon.slices.get(self.sv) if self.s else None,
                'groups': canon.groups.get(self.gv) if self.g else None,
                'layers': canon.layers if self.l else None,
                'slice_id': canon.ids['slice_id'] if self.s else None,
                'group_id': canon.ids['group_id'] if self.g else None,
                'layer_id': canon.ids['layer_id'] if self.l else None,
                'rows': canon.rows}


WHICH = {'s': 'slices', 'g': 'groups', 'l': 'layers'}


def call(chunk, op):
    """ -> (returned value, exception or None) """
    try:
        if op == 'S':
            return chunk.find_slices(), None
        if op == 'G':
            return chunk.find_groups(), None
        if op == 'L':
            return chunk.find_layers(), None
        if op[0] == 'M':
            return chunk.metarize(WHICH[op[1]]), None
        if op[0] == 'Q':
            return chunk.metar_msg(WHICH[op[1]]), None
        if op == 'O':
            _ = (chunk.n_slices, chunk.n_groups, chunk.n_layers, chunk.max_hits_per_layer, chunk.ceilos,
                 chunk.data_rescaled(), chunk.clouds_above_msa_buffer, chunk.msa)
            return None, None
    except Exception as exc:  # noqa
        return None, exc
    raise ValueError(op)


def step_check(chunk, model, canon, op, path):
    """ Apply op to chunk and model; -> failure tuple (clause, sig, detail) or None. """
    from ampycloud.errors import AmpycloudError
    before = snap(chunk)
    verdict, why = model.step(op)
    ret, exc = call(chunk, op)
    seq = ','.join(path)
    if exc is not None and not isinstance(exc, AmpycloudError):
        return ('exception', f'{op}: {type(exc).__name__} instead of AmpycloudError/result',
                f'sequence {seq}: {exc!r}')
    after = snap(chunk)
    if verdict == 'err':
        if exc is None:
            # The statement allows a call to succeed whenever the outcome is the canonical one (e.g.
            # re-grouping a chunk that holds no group discards nothing): compare with the state the
            # call would legitimately produce.
            model.step(op, force=True)
            pred = model.predicted(canon)
            try:
                dd = observe.diff_snap(pred, after)
            except KeyError:
                dd = 'stage results missing'
            if dd is None and op[0] == 'Q' and ret != canon.msgs[WHICH[op[1]]]:
                dd = f'message {ret!r} vs {canon.msgs[WHICH[op[1]]]!r}'
            if dd:
                return ('accepted', f'{op} accepted although {why}, and the outcome is not canonical',
                        f'sequence {seq}: {dd}')
            return None
        dd = observe.diff_snap(before, after)
        if dd:
            return ('refused-mutates', f'refused {op} ({why}) changed earlier results',
                    f'sequence {seq}: {dd}')
        return None
    if exc is not None:
        return ('refused', f'{op} refused although permitted', f'sequence {seq}: {exc}')
    dd = observe.diff_snap(model.predicted(canon), after)
    if dd:
        return ('canonical', f'after permitted {op} the state differs from the canonical result',
                f'sequence {seq}: {dd}')
    if op[0] == 'Q' and ret != canon.msgs[WHICH[op[1]]]:
        return ('canonical', f'{op} message differs from the canonical one',
                f'sequence {seq}: {ret!r} vs {canon.msgs[WHICH[op[1]]]!r}')
    if op == 'O' and observe.diff_snap(before, after):
        return ('canonical', 'observe op changed the state', f'sequence {seq}')
    return None


def nontrivial_seq(ops, canon):
    m = Model()
    seen_stage = False
    hit = False
    done = set()
    for op in ops:
        verdict, _ = m.copy().step(op)
        if verdict == 'err' and seen_stage:
            hit = True
        if verdict == 'ok' and op in done and op in ('S', 'G', 'L', 'Ms', 'Mg', 'Ml'):
            hit = True
        if m.step(op)[0] == 'ok':
            done.add(op)
            if op in ('S', 'G', 'L'):
                seen_stage = True
    return hit and canon.merged_or_split


def check(case):
    res = Result()
    try:
        canon = Canon(case)
    except Exception as exc:
        res.skipped = 'canonical run crashed: ' + observe.crash_sig(exc)
        return res
    with observe.GlobalPrms(None):
        chunk = copy.deepcopy(canon.fresh)
        model = Model()
        path = []
        for op in case['ops']:
            path.append(op)
            f = step_check(chunk, model, canon, op, path)
            res.evals += 1
            if f:
                res.fail(*f)
                break
    res.nontrivial = nontrivial_seq(case['ops'], canon)
    res.labels = [case.get('cls', 'dataset'), 'merged-or-split' if canon.merged_or_split else 'plain']
    res.key = [runner.digest(case['rows']), case['ops']]
    res.sample = {'cls': case.get('cls'), 'n_rows': len(case['rows']), 'ops': case['ops'], 'sizes': canon.sizes}
    return res


@st.composite
def strategy_(draw):
    case = draw(S.pipeline_case(WEIGHTS, vary=('sep', 'msa', 'base'), p_default_prms=0.3, exclude=False))
    case['ops'] = draw(st.lists(st.sampled_from(OPS + ['S', 'G', 'L', 'G', 'L']), min_size=3, max_size=14))
    return case


def strategy(tier):
    return strategy_()


def minimise(case, ok):
    best = dict(case)
    # shorten the op sequence first (cheap), then ddmin rows a little
    i = 0
    while i < len(best['ops']):
        cand = dict(best, ops=best['ops'][:i] + best['ops'][i + 1:])
        if ok(cand):
            best = cand
        else:
            i += 1
    size = max(1, len(best['rows']) // 2)
    while size >= 1 and len(best['rows']) > 2:
        reduced = False
        for start in range(0, len(best['rows']), size):
            cand = dict(best, rows=best['rows'][:start] + best['rows'][start + size:])
            if cand['rows'] and ok(cand):
                best, reduced = cand, True
                break
        if not reduced:
            size //= 2
    return best


# ------------------------------------------------------------------------------------------------
# exhaustive tree


def jobs(tier, seed):
    out = []
    for name in DATASETS[tier]:
        for a in OPS:
            out.append({'name': f'tree-{name}-{a}', 'dataset': name, 'prefix': [a], 'depth': DEPTH[tier]})
    return out


def run_job(job, ctx):
    case0 = dataset(job['dataset'])
    canon = Canon(case0)
    stt = ctx.stats
    depth = job['depth']
    n_nt = [0]

    def record_fail(path, f):
        res = Result()
        res.fail(*f)
        res.evals = 0
        ctx.record(dict(case0, ops=list(path), cls=job['dataset']), res)

    def dfs(chunk, model, path):
        for op in OPS:
            if len(path) == 0 and op != job['prefix'][0]:
                continue
            ch2, m2 = copy.deepcopy(chunk), model.copy()
            p2 = path + [op]
            f = step_check(ch2, m2, canon, op, p2)
            stt.cases += 1
            stt.evaluations += 1
            if f:
                stt.cases -= 1
                record_fail(p2, f)
                continue
            if nontrivial_seq(p2, canon):
                n_nt[0] += 1
                if len(stt.samples) < 1 and len(p2) == depth:
                    stt.samples.append({'dataset': job['dataset'], 'ops': p2})
            if len(p2) < depth:
                dfs(ch2, m2, p2)

    with observe.GlobalPrms(None):
        dfs(copy.deepcopy(canon.fresh), Model(), [])
    stt.distinct_extra += n_nt[0]
    stt.labels['tree:' + job['dataset']] += stt.cases
    if job['prefix'] == ['O']:
        stt.exhaustive.append(f"all call sequences of length <= {depth} over the 10 ops on data set "
                              f"'{job['dataset']}' (sizes {canon.sizes}, merged-or-split={canon.merged_or_split})")
