"""C03 - sky coverage: hit counts, percentages and oktas are exactly what the hits imply."""
from fractions import Fraction

from vlib import observe, oracles, strategies as S
from vlib.runner import Result

ID = 'C03'
RULE = ('(a) Hypothesis scenes (layered with multi-hit measurements and 1-4 instruments with coincident / offset / '
        'unequal / irregular stamps, exact_counts, split_candidate, merge_chain, ref_window) x MAX_HITS_OKTA0 x '
        'MAX_HOLES_OKTA8 x MSA cropping; (b) exhaustive grid: one flat layer hit in exactly n of N measurements, '
        'N = 1..12 (quick) / 1..40 (thorough), n = 0..N, x (MAX_HITS_OKTA0, MAX_HOLES_OKTA8) in {0,1,3}x{0,1,4}. '
        'Oracle per row of the three tables: n_hits == number of distinct (ceilo, dt) among the member hits of '
        'chunk.data; perc == n/N*100 (rel 1e-12) with N = distinct (ceilo, dt) of chunk.data == max_hits_per_layer; '
        'okta in the coverage model (exact rational WMO binning, both neighbours accepted at exact x.5 ties); code '
        'prefix == WMO abbreviation; okta non-decreasing in n within each table and along each grid line. '
        'Non-trivial = a set holding >= 2 hits of one measurement, or two instruments sharing a time stamp inside a '
        'set, or n within 1 of a buffer threshold or of an okta bin edge. Distinct by (N, sorted (n, okta) pairs, '
        'buffers, multi-hit flag, shared-stamp flag).')
ASSUMPTIONS = ['"measurements in the chunk" = distinct (ceilo, dt) of chunk.data, i.e. after MSA cropping',
               'crashes of run() are left to C08']
BUDGET = {'quick': 900, 'thorough': 20000}
CORPUS = 'pipeline'
WEIGHTS = {'layered': 8, 'handover': 3, 'exact_counts': 4, 'split_candidate': 2, 'merge_chain': 2, 'ref_window': 2,
           'degenerate': 1}
GRID_N = {'quick': 12, 'thorough': 40}


def strategy(tier):
    return S.pipeline_case(WEIGHTS, vary=('msa', 'okta', 'sep'), p_default_prms=0.15, anomalies=True,
                           anomaly_negative=False)


def near_edge(n, total, max0, max8):
    if abs(n - max0) <= 1 or abs((total - n) - max8) <= 1:
        return True
    for d in (-1, 0, 1):
        m = n + d
        if 0 <= m <= total and oracles.okta_candidates(m, total) != oracles.okta_candidates(n, total):
            return True
    return False


def check_tables(chunk, prms, res):
    max0 = oracles.prm(prms, 'MAX_HITS_OKTA0')
    max8 = oracles.prm(prms, 'MAX_HOLES_OKTA8')
    data = chunk.data
    recs = list(zip(data['ceilo'].tolist(), data['dt'].tolist()))
    total = len(set(recs))
    if chunk.max_hits_per_layer != total:
        res.fail('total', 'max_hits_per_layer != number of distinct (ceilo, dt)',
                 f'{chunk.max_hits_per_layer} vs {total}')
    key = [total, max0, max8]
    for which in ('slices', 'groups', 'layers'):
        table = observe.table_rows(getattr(chunk, which))
        ids = data[which[:-1] + '_id'].tolist()
        pairs = []
        for row in table:
            mem = [recs[i] for i, v in enumerate(ids) if v == row['cluster_id']]
            n = len(set(mem))
            detail = f"{which} cid={row['cluster_id']} n_hits={row['n_hits']} perc={row['perc']} " \
                     f"okta={row['okta']} code={row['code']} | model n={n} N={total} max0={max0} max8={max8}"
            if row['n_hits'] != n:
                res.fail('n_hits', f'n_hits != distinct (ceilo, dt) of the members ({which})', detail)
            exp = n / total * 100 if total else float('nan')
            if not abs(row['perc'] - exp) <= 1e-12 * max(1.0, abs(exp)):
                res.fail('perc', f'perc != n/N*100 ({which})', detail)
            cands = oracles.coverage_okta(n, total, max0, max8)
            if row['okta'] not in cands:
                res.fail('okta', f'okta outside the coverage model ({which})', detail + f' allowed={cands}')
            elif not str(row['code']).startswith(oracles.okta_code(row['okta'])):
                res.fail('code', f'code prefix is not the WMO abbreviation ({which})', detail)
            pairs.append((n, row['okta']))
            multi = len(mem) > len(set(mem))
            shared = len(set(m[1] for m in mem)) < len(set(mem))
            if multi or shared or near_edge(n, total, max0, max8):
                res.nontrivial = True
            if multi:
                res.labels.append('multi-hit-set')
            if shared:
                res.labels.append('shared-stamp-set')
        pairs.sort()
        for (n1, o1), (n2, o2) in zip(pairs, pairs[1:]):
            if n1 < n2 and o1 > o2:
                res.fail('monotone', f'okta decreases with the count ({which})', f'{pairs} N={total}')
        key.append(pairs)
    res.labels = sorted(set(res.labels))
    return key


def check(case):
    res = Result()
    try:
        chunk = observe.run_case(case)
    except Exception as exc:
        res.skipped = 'run crashed: ' + observe.crash_sig(exc)
        res.labels = [case['cls']]
        return res
    res.key = check_tables(chunk, case['prms'], res)
    res.labels.append(case['cls'])
    res.sample = {'cls': case['cls'], 'n_rows': len(case['rows']), 'prms': case['prms'],
                  'layers': [(r['cluster_id'], r['n_hits'], round(r['perc'], 3), r['okta'], r['code'])
                             for r in observe.table_rows(chunk.layers)],
                  'N': chunk.max_hits_per_layer}
    return res


def jobs(tier, seed):
    return [{'name': f'grid-N{N}', 'N': N} for N in range(1, GRID_N[tier] + 1)]


def grid_case(N, n, max0, max8):
    # two instruments when N is even, so that stamps are shared between instruments
    if N % 2 == 0 and N >= 4:
        meas = [(c, -900.0 + 60.0 * i) for i in range(N // 2) for c in ('a', 'b')]
    else:
        meas = [('a', -900.0 + 60.0 * i) for i in range(N)]
    hits = [[1000.0] if i < n else [] for i in range(N)]
    return {'cls': 'grid', 'rows': S.rows_from_hits(meas, hits),
            'prms': {'MAX_HITS_OKTA0': max0, 'MAX_HOLES_OKTA8': max8}, 'grid': [N, n]}


def run_job(job, ctx):
    N = job['N']
    for max0 in (0, 1, 3):
        for max8 in (0, 1, 4):
            prev = None
            for n in range(0, N + 1):
                case = grid_case(N, n, max0, max8)
                res = check(case)
                res.labels = ['grid']
                table = res.sample['layers'] if res.sample else []
                okta = table[0][3] if table else (0 if n == 0 else None)
                if n > 0 and (not table or table[0][1] != n):
                    res.fail('grid', 'grid layer not reported with its n hits', f'N={N} n={n} {table}')
                if prev is not None and okta is not None and okta < prev:
                    res.fail('monotone', 'okta decreases along a grid line',
                             f'N={N} n={n} max0={max0} max8={max8} okta={okta} prev={prev}')
                if okta is not None:
                    prev = okta
                res.key = ['grid', N, n, max0, max8]
                res.nontrivial = n > 0 and near_edge(n, N, max0, max8)
                ctx.record(case, res)
    if N == GRID_N[job['tier']]:
        ctx.stats.exhaustive.append(f'all (n, N) with 0<=n<=N<={N} x (MAX_HITS_OKTA0, MAX_HOLES_OKTA8) in '
                                    '{0,1,3}x{0,1,4} for a single flat layer')
