"""C04 - base height = configured percentile, inside the layer, never coded upward."""
import math

from hypothesis import strategies as st

from vlib import observe, oracles, strategies as S
from vlib.runner import Result

ID = 'C04'
RULE = ('Cases = generated scene (layered, exact_counts, split_candidate, merge_chain, ref_window, degenerate; rows '
        'time-ascending / descending / shuffled / per-instrument, dt ties from coincident instruments; 30% with '
        'heights moved to the floating-point neighbour of their value so bases sit on either side of x00 / x000 ft) '
        'x BASE_LVL_HEIGHT_PERC in [0,100] (ints and floats) x BASE_LVL_LOOKBACK_PERC in (0,100] x '
        'EXCLUDE_FOR_BASE_HEIGHT_CALC (none / some / all / absent names) x LOWESS frac/it x MAX_HITS_OKTA0 x MSA. '
        'Plus two enumerations: the pure function utils.calc_base_height for every n <= 400 (thorough 1200) x look-back 0.5..100 by 0.5, and pipeline runs on a single rising deck for every (n <= 120 / 300, integer p) with n*p a multiple of 100. Oracle per row of the three tables: base within the base-height model interval (own percentile over the '
        'most recent floor(n*lookback/100) member hits after the exclusion filter with fall-back; interval only '
        'when dt ties straddle the look-back cut; rel. tol 1e-9) and min <= base <= max; min / max / mean / '
        'thickness / sample-std recomputed from the member hits (rel 1e-9); fluffiness finite and >= 0; code digits '
        'd satisfy d*100 <= base < d*100+100 (base <= 10000) or d*100 <= base < d*100+1000 above; table sorted by '
        'base. Non-trivial = look-back engaged (0 < k < n) for some set, or exclusion active (filtered or fall-back), '
        'or a base within 1 ft of a coding boundary. Distinct by (class, parameter values, per-level table shape and '
        'codes).')
ASSUMPTIONS = ['percentile = linear interpolation (numpy default), re-implemented in vlib/oracles.py',
               'k = 0 (tiny sets) means "all hits" as the slice [-0:] does; the property only bounds the base there',
               'when the fall-back decision differs between counting rows and counting measurements both are accepted',
               'crashes of run() are left to C08']
BUDGET = {'quick': 1800, 'thorough': 30000}
CORPUS = 'pipeline'
WEIGHTS = {'layered': 8, 'exact_counts': 3, 'split_candidate': 3, 'merge_chain': 3, 'ref_window': 2,
           'degenerate': 1}


@st.composite
def strategy_(draw):
    case = draw(S.pipeline_case(WEIGHTS, vary=('msa', 'okta', 'sep', 'base', 'lowess'), p_default_prms=0.05, base_p_default=0.05,
                                anomalies=True, anomaly_negative=False))
    return draw(S.ulp_jitter(case))


def strategy(tier):
    return strategy_()


GRID_N = {'quick': 120, 'thorough': 300}
FUNC_N = {'quick': 400, 'thorough': 1200}


def jobs(tier, seed):
    out = [{'name': f'lookback-grid-{i}', 'what': 'grid', 'part': i, 'parts': 8, 'nmax': GRID_N[tier]} for i in range(8)]
    out += [{'name': f'calc-base-height-{i}', 'what': 'func', 'part': i, 'parts': 8, 'nmax': FUNC_N[tier]}
            for i in range(8)]
    return out


def run_job(job, ctx):
    nmax = job['nmax']
    if job['what'] == 'grid':
        # pipeline runs on a single rising deck of n hits for every integer look-back p with n*p/100 an
        # integer (where a rounded product would lose a hit)
        pairs = [(n, p) for n in range(2, nmax + 1) for p in range(1, 100) if (n * p) % 100 == 0]
        for n, p in pairs[job['part']::job['parts']]:
            rows = [['a', -900.0 + 900.0 * i / n, 1000.0 + 3.0 * i + (i * 7) % 5, 1] for i in range(n)]
            case = {'cls': 'lookback_grid', 'rows': rows,
                    'prms': {'BASE_LVL_LOOKBACK_PERC': p, 'BASE_LVL_HEIGHT_PERC': (0, 5, 50)[(n + p) % 3],
                             'SLICING_PRMS': {'distance_threshold': 2}}}
            ctx.record(case, check(case))
        if job['part'] == 0:
            ctx.stats.exhaustive.append(f'single rising deck of n hits x every integer look-back p with n*p a multiple of '
                                        f'100, 2 <= n <= {nmax} (pipeline runs)')
        return
    # function level: utils.calc_base_height against the model for every n <= nmax and p in 0.5 .. 100 by 0.5
    import numpy as np
    from ampycloud.utils import utils
    bad = None
    for n in range(1 + job['part'], nmax + 1, job['parts']):
        vals = [1000.0 + 2.5 * i + (i * 11) % 7 for i in range(n)]
        arr = np.array(vals)
        mem = [(float(i), v) for i, v in enumerate(vals)]
        for p2 in range(1, 201):
            p = p2 / 2 if p2 % 2 else p2 // 2
            perc = (0, 5, 37.5, 50, 100)[(n + p2) % 5]
            got = float(utils.calc_base_height(arr, p, perc))
            lo, hi, k, _ = oracles.base_interval(mem, p, perc)
            ctx.stats.cases += 1
            ctx.stats.evaluations += 1
            if not (lo - 1e-9 * max(1, abs(lo)) <= got <= hi + 1e-9 * max(1, abs(hi))):
                bad = (n, p, perc, got, lo, hi, k)
                res = Result()
                res.fail('percentile', 'calc_base_height differs from the look-back percentile model',
                         f'n={n} lookback={p} perc={perc} got={got!r} model=[{lo!r}, {hi!r}] k={k}')
                rows = [['a', float(i), v, 1] for i, v in enumerate(vals)]
                ctx.stats.cases -= 1
                ctx.stats.evaluations -= 1
                ctx.record({'cls': 'lookback_grid', 'rows': rows,
                            'prms': {'BASE_LVL_LOOKBACK_PERC': p, 'BASE_LVL_HEIGHT_PERC': perc,
                                     'SLICING_PRMS': {'distance_threshold': 2}}}, res)
        ctx.stats.distinct_extra += 200
    ctx.stats.labels['calc_base_height(n,p)'] += 1
    if job['part'] == 0:
        ctx.stats.exhaustive.append(f'utils.calc_base_height on rising arrays of n <= {nmax} values x look-back 0.5..100 '
                                    'by 0.5 against the percentile model')


def close(a, b, tol=1e-9):
    if isinstance(a, float) and math.isnan(a):
        return isinstance(b, float) and math.isnan(b)
    return abs(a - b) <= tol * max(1.0, abs(a), abs(b))


def check_tables(chunk, prms, res):
    lookback = oracles.prm(prms, 'BASE_LVL_LOOKBACK_PERC')
    perc = oracles.prm(prms, 'BASE_LVL_HEIGHT_PERC')
    excl = oracles.prm(prms, 'EXCLUDE_FOR_BASE_HEIGHT_CALC')
    max0 = oracles.prm(prms, 'MAX_HITS_OKTA0')
    data = chunk.data
    cs, dts, hs = data['ceilo'].tolist(), data['dt'].tolist(), data['height'].tolist()
    key = []
    for which in ('slices', 'groups', 'layers'):
        table = observe.table_rows(getattr(chunk, which))
        ids = data[which[:-1] + '_id'].tolist()
        bases = [r['height_base'] for r in table]
        if any(b < a for a, b in zip(bases, bases[1:])):
            res.fail('sorted', f'table not sorted by base ({which})', str(bases))
        for row in table:
            mem = [(cs[i], dts[i], hs[i]) for i, v in enumerate(ids) if v == row['cluster_id']]
            mem = [m for m in mem if not math.isnan(m[2])]
            if not mem:
                res.fail('members', f'table row without member hits ({which})', str(row))
                continue
            heights = [m[2] for m in mem]
            detail = f"{which} cid={row['cluster_id']} base={row['height_base']!r} code={row['code']} " \
                     f"n={len(mem)} lookback={lookback} perc={perc} excl={excl}"
            # -- statistics
            mn, mx = min(heights), max(heights)
            mean = math.fsum(heights) / len(heights)
            for name, exp in (('height_min', mn), ('height_max', mx), ('height_mean', mean),
                              ('thickness', mx - mn)):
                if not close(row[name], exp):
                    res.fail('stats', f'{name} differs from the member hits ({which})',
                             detail + f' got={row[name]!r} exp={exp!r}')
            if len(heights) >= 2:
                var = math.fsum((h - mean) ** 2 for h in heights) / (len(heights) - 1)
                if not abs(row['height_std'] - math.sqrt(var)) <= 1e-9 * max(1.0, mx - mn, math.sqrt(var)):
                    res.fail('stats', f'height_std differs from the sample std ({which})',
                             detail + f" got={row['height_std']!r} exp={math.sqrt(var)!r}")
            elif not (math.isnan(row['height_std']) or row['height_std'] == 0):
                res.fail('stats', f'height_std of a single hit ({which})', detail)
            fl = row['fluffiness']
            if not (isinstance(fl, (int, float)) and math.isfinite(fl) and fl >= 0):
                res.fail('fluffiness', f'fluffiness not finite and non-negative ({which})',
                         detail + f' fluffiness={fl!r}')
            # -- base
            base = row['height_base']
            if not (mn - 1e-9 * max(1, abs(mn)) <= base <= mx + 1e-9 * max(1, abs(mx))):
                res.fail('inside', f'base outside [min, max] of the members ({which})',
                         detail + f' min={mn} max={mx}')
            sels = []
            state = 'none'
            if excl:
                filt = [m for m in mem if m[0] not in excl]
                n_rows = len(filt)
                n_meas = len(set((m[0], m[1]) for m in filt))
                if n_rows > max0:
                    sels.append(filt)
                    state = 'filtered' if len(filt) < len(mem) else 'noop'
                if n_rows <= max0 or n_meas <= max0:
                    sels.append(mem)
                    state = 'fallback' if n_rows <= max0 else state
            else:
                sels.append(mem)
            ok, info = False, []
            engaged = False
            for sel in sels:
                lo, hi, k, n = oracles.base_interval([(m[1], m[2]) for m in sel], lookback, perc)
                info.append((lo, hi, k, n))
                engaged = engaged or 0 < k < n
                tol = 1e-9 * max(1.0, abs(lo), abs(hi))
                if lo - tol <= base <= hi + tol:
                    ok = True
            if not ok:
                res.fail('percentile', f'base is not the configured percentile of the selected hits ({which})',
                         detail + f' model(lo,hi,k,n)={info} state={state}')
            # -- code
            digits = str(row['code'])[3:]
            if base < 0:
                if not (len(digits) == 3 and digits.isdigit()):
                    res.fail('code', 'code of a negative base height is not three digits', detail)
            elif not (len(digits) == 3 and digits.isdigit()):
                res.fail('code', f'code does not end in three digits ({which})', detail)
            else:
                d = int(digits) * 100
                width = 100 if base <= 10000 else 1000
                if not (d <= base < d + width):
                    res.fail('code', f'code digits are not the floored base ({which})', detail)
            step = 100 if base <= 10000 else 1000
            nearb = min(base % step, step - base % step) <= 1
            if engaged or state in ('filtered', 'fallback') or nearb:
                res.nontrivial = True
            for lab, cond in (('lookback-engaged', engaged), ('excl-' + state, state != 'none'),
                              ('near-coding-boundary', nearb)):
                if cond:
                    res.labels.append(lab)
        key.append([(r['code'], r['n_hits']) for r in table])
    res.labels = sorted(set(res.labels))
    return key


def check(case):
    res = Result()
    try:
        chunk = observe.run_case(case)
    except Exception as exc:
        res.skipped = 'run crashed: ' + observe.crash_sig(exc)
        res.labels = [case['cls']]
        return res
    key = check_tables(chunk, case['prms'], res)
    res.key = [case['cls'], case['prms'], key]
    res.labels.append(case['cls'])
    if case.get('ulp'):
        res.labels.append('ulp-jitter')
    res.sample = {'cls': case['cls'], 'n_rows': len(case['rows']), 'prms': case['prms'],
                  'layers': [(r['code'], r['height_base'], r['height_min'], r['height_max'])
                             for r in observe.table_rows(chunk.layers)]}
    return res
