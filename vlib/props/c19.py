"""C19 - scalings are order-preserving, invertible and blind to non-detections."""
import math

import numpy as np
import pandas as pd
from hypothesis import strategies as st

from vlib.runner import Result

ID = 'C19'
RULE = ('Cases = value arrays (1-40 values in +-1e5 on a 1e-3 grid or free floats, nearly constant arrays whose spread (>= 1e-6) is tiny against their magnitude, NaNs interspersed, constant arrays, '
        'single values; ndarray or pandas Series) x mode in {shift-and-scale (scale in [1e-3, 1e6], shift given or '
        'derived), minmax-scale (min_range >= 0 with effective span >= 1e-6, or explicit min_val < max_val), step-scale '
        '(0-4 ascending steps, positive scales)}; the deterministic kwargs are derived through scaler.convert_kwargs '
        'and plots.tools.get_scaling_kwargs (do/undo pair), and 10% of the cases go through CeiloChunk.data_rescaled. '
        'Oracle: x < y => f(x) <= f(y) (tolerance 1e-9*max|f| for step-scale only); undo(do(x)) == x within '
        '1e-9*max(1,|x|max)*(max scale/min scale); minmax output within [-1e-12, 1+1e-12] and derived max_val-min_val '
        '>= min_range and covering the data (abs. slack 1e-9*max(1,|min_val|,|max_val|,min_range)); step-scale left/right limits at each step agree to 1e-9 relative; NaN '
        'positions preserved and the non-NaN values are bit-equal to scaling the NaN-free sub-array. Non-trivial = '
        'array with >= 2 distinct finite values, or containing NaN, or constant/single with min_range engaged. '
        'Distinct by the full case.')
ASSUMPTIONS = ['scalar (0-d) inputs are not exercised: ampycloud only ever passes arrays / Series',
               'all-NaN arrays must be returned unchanged (documented passthrough)']
BUDGET = {'quick': 6000, 'thorough': 300000}
HYP_SHRINK = True
MIN_PER_SHARD = 100


@st.composite
def strategy_(draw):
    n = draw(st.integers(1, 40))
    kind = draw(st.sampled_from(['grid', 'grid', 'free', 'const', 'ints', 'quasi']))
    if kind == 'const':
        v = draw(st.integers(-100000, 100000)) / 1.0
        vals = [v] * n
    elif kind == 'quasi':
        # nearly constant: spread far below the magnitude, but inside the domain (span >= 1e-6)
        v = float(draw(st.sampled_from([0, 1000, 30000, 99999, -900])))
        delta = draw(st.sampled_from([1e-6, 1e-4, 1e-2, 0.25]))
        vals = [v + delta * k for k in draw(st.lists(st.integers(0, 4), min_size=n, max_size=n))]
        if len(set(vals)) == 1:
            vals[0] = v + delta * 5
    elif kind == 'ints':
        vals = [float(x) for x in draw(st.lists(st.integers(0, 30000), min_size=n, max_size=n))]
    elif kind == 'grid':
        vals = [x / 1000 for x in draw(st.lists(st.integers(-10 ** 8, 10 ** 8), min_size=n, max_size=n))]
    else:
        vals = draw(st.lists(st.floats(-1e5, 1e5, allow_nan=False), min_size=n, max_size=n))
    nan_at = draw(st.lists(st.integers(0, n - 1), max_size=3, unique=True)) if draw(st.booleans()) else []
    vals = [None if i in nan_at else v for i, v in enumerate(vals)]
    mode = draw(st.sampled_from(['shift-and-scale', 'minmax-scale', 'step-scale']))
    kw = {}
    if mode == 'shift-and-scale':
        kw['scale'] = draw(st.sampled_from([1e-3, 0.5, 1, 100, 180, 1000, 1e5, 1e6]))
        if draw(st.booleans()):
            kw['shift'] = draw(st.sampled_from([0, 0.0, -900, 1000.5]))
    elif mode == 'minmax-scale':
        fin = [v for v in vals if v is not None]
        span = (max(fin) - min(fin)) if fin else 0
        if draw(st.booleans()):
            mr = draw(st.sampled_from([0, 0, 1e-6, 1e-3, 1, 1000, 1000, 50000, 1e6]))
            if max(span, mr) < 1e-6:
                mr = 1000
            kw['min_range'] = mr
        elif span < 1e-6:
            kw['min_range'] = 1000
    else:
        k = draw(st.integers(0, 4))
        steps = sorted(draw(st.lists(st.sampled_from([-5000, 0, 100, 3000, 8000, 8000.5, 14000, 25000, 60000]),
                                     min_size=k, max_size=k, unique=True)))
        kw['steps'] = [float(s) if isinstance(s, float) else s for s in steps]
        kw['scales'] = [draw(st.sampled_from([0.01, 1, 100, 500, 1000, 1e5])) for _ in range(k + 1)]
    return {'vals': vals, 'mode': mode, 'kwargs': kw, 'as': draw(st.sampled_from(['ndarray', 'ndarray', 'series'])),
            'via_chunk': draw(st.integers(0, 9)) == 0}


def strategy(tier):
    return strategy_()


def to_input(vals, how):
    arr = np.array([np.nan if v is None else v for v in vals], dtype=float)
    return pd.Series(arr) if how == 'series' else arr


def check(case):
    from ampycloud import scaler
    from ampycloud.plots import tools
    res = Result()
    mode, kw = case['mode'], case['kwargs']
    res.labels = [mode, 'as:' + case['as']]
    x = to_input(case['vals'], case['as'])
    xa = np.asarray(x, dtype=float)
    fin = ~np.isnan(xa)
    detail = f'mode={mode} kwargs={kw} vals={case["vals"][:12]}'
    if not fin.any():
        out = scaler.apply_scaling(x, mode, **dict(kw))
        if not np.all(np.isnan(np.asarray(out, dtype=float))) or len(np.asarray(out)) != len(xa):
            res.fail('nan', 'all-NaN array not passed through', detail)
        res.nontrivial = True
        res.labels.append('all-nan')
        return res
    try:
        do_kw, undo_kw = tools.get_scaling_kwargs(x, mode, dict(kw))
        y = scaler.apply_scaling(x, mode, **dict(kw))
        y2 = scaler.apply_scaling(x, mode, **dict(do_kw))
        back = scaler.apply_scaling(np.asarray(y, dtype=float), mode, **dict(undo_kw))
    except Exception as exc:
        res.fail('crash', f'scaling raised {type(exc).__name__} on its documented domain ({mode})', f'{exc!r} {detail}')
        return res
    ya = np.asarray(y, dtype=float)
    if ya.shape != xa.shape:
        res.fail('shape', 'output shape differs', detail)
        return res
    # NaN handling
    if not np.array_equal(np.isnan(ya), ~fin):
        res.fail('nan', f'NaN positions not preserved ({mode})', detail + f' out={ya[:12]}')
    sub = scaler.apply_scaling(xa[fin], mode, **dict(kw))
    if not np.array_equal(np.asarray(sub, dtype=float), ya[fin]):
        res.fail('nan', f'NaN entries affect the scaling of the other values ({mode})', detail)
    # derived kwargs are deterministic: same result
    if not np.array_equal(np.asarray(y2, dtype=float)[fin], ya[fin]):
        res.fail('kwargs', f'derived deterministic kwargs scale differently ({mode})', detail + f' do_kw={do_kw}')
    xs, ys = xa[fin], ya[fin]
    # order preservation
    order = np.argsort(xs, kind='stable')
    xs_s, ys_s = xs[order], ys[order]
    tol = 1e-9 * max(1.0, float(np.max(np.abs(ys)))) if mode == 'step-scale' else 0.0
    for i in range(len(xs_s) - 1):
        if xs_s[i] < xs_s[i + 1] and ys_s[i] > ys_s[i + 1] + tol:
            res.fail('order', f'scaling reverses two values ({mode})',
                     detail + f' x={xs_s[i]!r},{xs_s[i + 1]!r} f={ys_s[i]!r},{ys_s[i + 1]!r}')
            break
    # round trip
    if mode == 'step-scale':
        ratio = max(kw['scales']) / min(kw['scales'])
    else:
        ratio = 1.0
    rt_tol = 1e-9 * max(1.0, float(np.max(np.abs(xs)))) * ratio
    ba = np.asarray(back, dtype=float)
    if ba.shape != xa.shape or not np.all(np.abs(ba[fin] - xs) <= rt_tol):
        worst = float(np.nanmax(np.abs(ba[fin] - xs))) if ba.shape == xa.shape else None
        res.fail('roundtrip', f'undo(do(x)) != x ({mode})', detail + f' worst={worst} tol={rt_tol} undo_kw={undo_kw}')
    # mode specific
    if mode == 'minmax-scale':
        if ys.min() < -1e-12 or ys.max() > 1 + 1e-12:
            res.fail('minmax', 'minmax output outside [0, 1]', detail + f' range=[{ys.min()!r},{ys.max()!r}]')
        mr = kw.get('min_range', 0)
        lo, hi = do_kw['min_val'], do_kw['max_val']
        slack = 1e-9 * max(1.0, abs(lo), abs(hi), mr)
        if hi - lo < mr - slack or lo > xs.min() + slack or hi < xs.max() - slack:
            res.fail('minmax', 'minimum range not honoured / data not covered',
                     detail + f' min_val={lo!r} max_val={hi!r}')
    if mode == 'step-scale':
        for s in kw['steps']:
            left = scaler.apply_scaling(np.array([math.nextafter(float(s), -math.inf)]), mode, **dict(kw))[0]
            right = scaler.apply_scaling(np.array([float(s)]), mode, **dict(kw))[0]
            if not abs(left - right) <= 1e-9 * max(1.0, abs(left), abs(right)):
                res.fail('continuity', 'step scaling is not continuous across a step',
                         detail + f' step={s} left={left!r} right={right!r}')
    # direct calls with data-derived defaults (shift = nanmax, min/max = nanmin/nanmax)
    if mode == 'shift-and-scale' and 'shift' not in kw:
        direct = np.asarray(scaler.shift_and_scale(xa, scale=kw['scale']), dtype=float)
        if not np.array_equal(direct, ya, equal_nan=True):
            res.fail('nan', 'shift_and_scale() with the default shift differs from apply_scaling', detail)
    if mode == 'minmax-scale' and xs.max() - xs.min() >= 1e-6:
        direct = np.asarray(scaler.minmax_scale(xa), dtype=float)
        if not np.array_equal(np.isnan(direct), ~fin) or np.nanmin(direct) != 0 or np.nanmax(direct) != 1:
            res.fail('nan', 'minmax_scale() with default edges mishandles NaN / does not map onto [0, 1]', detail)
    # via CeiloChunk.data_rescaled
    if case.get('via_chunk'):
        from ampycloud.data import CeiloChunk
        from vlib import observe
        rows = [['a', -float(i), None if v is None else float(v), 0 if v is None else 1]
                for i, v in enumerate(case['vals'])]
        chunk = CeiloChunk(observe.build_frame(rows))
        out = chunk.data_rescaled(height_mode=mode, height_kwargs=dict(kw))
        if not np.array_equal(out['height'].to_numpy(), ya, equal_nan=True):
            res.fail('chunk', 'CeiloChunk.data_rescaled differs from apply_scaling', detail)
        if not np.array_equal(chunk.data['height'].to_numpy(), xa, equal_nan=True):
            res.fail('chunk', 'data_rescaled modified the chunk data', detail)
        res.labels.append('via-chunk')
    ndist = len(set(xs.tolist()))
    res.nontrivial = ndist >= 2 or (~fin).any() or ('min_range' in kw and kw['min_range'] > 0)
    if (~fin).any():
        res.labels.append('has-nan')
    if ndist == 1:
        res.labels.append('constant')
    if mode == 'step-scale':
        res.labels.append(f'steps={len(kw["steps"])}')
    return res
