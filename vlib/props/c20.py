"""C20 - diagnostic plotting is total and free of side effects."""
import copy
import os
import tempfile
import warnings

from hypothesis import strategies as st

from vlib import observe, oracles, strategies as S
from vlib.runner import Result

ID = 'C20'
RULE = ('Cases = a processed chunk (scenes: layered incl. VV hits, degenerate: no hits / single hit / identical / all-VV, '
        'exact_counts with zero-okta layers, merge_chain, split_candidate, many-layer scenes with > 8 slices/groups/layers, '
        'many-instrument scenes with 11-14 ceilometers) x parameters (MSA, okta buffers, separation) x a history of 1-4 '
        'plots in one process, each with upto in {raw_data, slices, groups, layers} x show_ceilos x reference-METAR '
        'arguments (None / METAR-grammar strings / origin names) x save request (None, or a stem in a fresh temporary '
        'directory with formats among png / pdf / svg given as str or list, or the default None -> pdf) x show=False. '
        'Style: base only (no system LaTeX in the sandbox). Oracle after every plot: no exception; the chunk snapshot '
        '(tables, data, messages, flag, prms) is unchanged; dict(matplotlib.rcParams) equals its value before the call '
        '(one warm-up figure is drawn first with plain matplotlib so lazily initialised keys are settled); pyplot.get_fignums() is unchanged; '
        'the directory holds exactly {stem}.{fmt} for the requested formats and each file is non-empty. Non-trivial = '
        'chunk with 0 slices, or > 8 sets at some level, or VV hits, or > 10 instruments with show_ceilos, or a save '
        'request. Distinct by (class, table sizes, per-plot (upto, show_ceilos, ref given, formats)).')
ASSUMPTIONS = ['TeX-/mathtext-hostile free text in geoloc / ref_metar is outside the domain',
               'only the base style (latex / metsymb need a system LaTeX)',
               'crashes of run() are left to C08 (case skipped)']
BUDGET = {'quick': 260, 'thorough': 6000}
CORPUS = 'pipeline'


def from_corpus(case):
    plots = [{'upto': u, 'show_ceilos': True, 'ref_metar': 'FEW010', 'ref_metar_origin': None,
              'save': {'stem': 'c', 'fmts': 'png'} if u == 'layers' else None} for u in UPTO]
    return dict(case, plots=plots, geoloc='corpus', ref_dt=None)
UPTO = ['raw_data', 'slices', 'groups', 'layers']
_WARM = []


@st.composite
def many_ceilos(draw):
    meas, names, span = draw(S.grid(n_ceilos=(11, 14), n_t=(2, 4),
                                    names=[f'c{i:02d}' for i in range(14)][:draw(st.integers(11, 14))]))
    hits = [[float(1000 + (i * 37) % 300)] if i % 3 else [] for i in range(len(meas))]
    return {'cls': 'many_ceilos', 'rows': S.rows_from_hits(meas, hits)}


@st.composite
def many_sets(draw):
    k = draw(st.integers(9, 14))
    meas = [('a', -900.0 + 10 * i) for i in range(40)]
    hits = [[float(500 + 1500 * j) for j in range(k) if (i + j) % 2 == 0][:6] for i in range(40)]
    return {'cls': 'many_sets', 'rows': S.rows_from_hits(meas, hits),
            'prms_hint': {'SLICING_PRMS': {'distance_threshold': 0.03}}}


@st.composite
def strategy_(draw):
    which = draw(st.sampled_from(['scene'] * 6 + ['many_ceilos'] * 2 + ['many_sets'] * 2))
    if which == 'scene':
        case = draw(S.scene({'layered': 5, 'degenerate': 4, 'exact_counts': 2, 'merge_chain': 1,
                             'split_candidate': 1, 'ref_window': 1}))
    elif which == 'many_ceilos':
        case = draw(many_ceilos())
    else:
        case = draw(many_sets())
    prms = {}
    if draw(st.booleans()):
        prms = S.merge_dict(draw(S.msa_prms(case)), draw(S.okta_prms()))
    if case.get('prms_hint'):
        prms = S.merge_dict(prms, case['prms_hint'])
    plots = []
    for _ in range(draw(st.integers(1, 4))):
        p = {'upto': draw(st.sampled_from(UPTO)), 'show_ceilos': draw(st.booleans()),
             'ref_metar': draw(st.sampled_from([None, None, 'FEW010 BKN035', 'NCD', 'OVC001 OVC002 OVC003'])),
             'ref_metar_origin': draw(st.sampled_from([None, None, 'Human obs.', 'other_code-1'])),
             'save': None}
        sv = draw(st.sampled_from(['none', 'none', 'default', 'str', 'list']))
        if sv == 'default':
            p['save'] = {'stem': draw(st.sampled_from(['plot', 'a.b', 'sub-1_x'])), 'fmts': None}
        elif sv == 'str':
            p['save'] = {'stem': 'fig', 'fmts': draw(st.sampled_from(['png', 'pdf', 'svg']))}
        elif sv == 'list':
            p['save'] = {'stem': 'fig2', 'fmts': draw(st.lists(st.sampled_from(['png', 'pdf', 'svg']), min_size=1,
                                                             max_size=3, unique=True))}
        plots.append(p)
    # the shapes built for a particular code path always get the plot that exercises it
    if which == 'many_sets':
        plots[0]['upto'] = 'layers'
        if len(plots) > 1:
            plots[1]['upto'] = 'groups'
    elif which == 'many_ceilos':
        plots[0]['upto'], plots[0]['show_ceilos'] = 'raw_data', True
    return {'cls': case['cls'], 'kind': case.get('kind'), 'rows': case['rows'][:260], 'prms': prms, 'plots': plots,
            'geoloc': draw(st.sampled_from([None, 'Geneva', 'Mock data (test)'])),
            'ref_dt': draw(st.sampled_from([None, '2024-01-01 12:00:00']))}


def strategy(tier):
    return strategy_()


def warm_up():
    """ Settle matplotlib's lazily initialised state with plain matplotlib (never through ampycloud, so
    that a style leaking out of the very first ampycloud plot is still seen). """
    if _WARM:
        return
    import io
    import matplotlib
    matplotlib.use('Agg')
    import matplotlib.pyplot as plt
    with warnings.catch_warnings():
        warnings.simplefilter('ignore')
        fig = plt.figure()
        ax = fig.add_subplot(111)
        ax.plot([0, 1], [0, 1])
        ax.text(0.5, 0.5, r'$\Delta t$ x')
        for fmt in ('png', 'pdf', 'svg'):
            fig.savefig(io.BytesIO(), format=fmt)
        plt.close(fig)
    plt.close('all')
    _WARM.append(True)


def chunk_state(chunk):
    snap = observe.snapshot(chunk)
    snap['prms'] = copy.deepcopy(chunk.prms)
    return snap


def check(case):
    import matplotlib
    import matplotlib.pyplot as plt
    import ampycloud
    from ampycloud.plots import diagnostic
    res = Result()
    res.labels = [case['cls']]
    warm_up()
    try:
        with observe.GlobalPrms(None):
            chunk = ampycloud.run(observe.build_frame(case['rows']), prms=copy.deepcopy(case['prms']),
                                  geoloc=case.get('geoloc'), ref_dt=case.get('ref_dt'))
    except Exception as exc:
        res.skipped = 'run crashed: ' + observe.crash_sig(exc)
        return res
    state0 = chunk_state(chunk)
    n_ceilos = len(chunk.ceilos)
    sizes = [chunk.n_slices, chunk.n_groups, chunk.n_layers]
    has_vv = bool((chunk.data['type'] == -1).any())
    nt = chunk.n_slices == 0 or max(sizes) > 8 or has_vv
    key = [case['cls'], case.get('kind'), sizes, n_ceilos > 10]
    for p in case['plots']:
        rc0 = dict(matplotlib.rcParams)
        figs0 = list(plt.get_fignums())
        what = f"upto={p['upto']} show_ceilos={p['show_ceilos']} n_ceilos={n_ceilos} sizes={sizes} save={p['save']}"
        with tempfile.TemporaryDirectory(prefix='c20_') as tmp:
            kw = {}
            if p['save'] is not None:
                kw['save_stem'] = os.path.join(tmp, p['save']['stem'])
                if p['save']['fmts'] is not None:
                    kw['save_fmts'] = copy.deepcopy(p['save']['fmts'])
            try:
                with warnings.catch_warnings():
                    warnings.simplefilter('ignore')
                    diagnostic(chunk, upto=p['upto'], show_ceilos=p['show_ceilos'], ref_metar=p['ref_metar'],
                               ref_metar_origin=p['ref_metar_origin'], show=False, **kw)
            except Exception as exc:
                res.fail('raises', f'diagnostic() raised {observe.crash_sig(exc)} ({type(exc).__name__} in plots)'
                         if 'plots/' not in observe.crash_sig(exc) else f'diagnostic() raised {observe.crash_sig(exc)}',
                         f'{exc!r} {what}')
            res.evals += 1
            # files
            want = set()
            if p['save'] is not None:
                fmts = p['save']['fmts']
                fmts = ['pdf'] if fmts is None else [fmts] if isinstance(fmts, str) else fmts
                want = {f"{p['save']['stem']}.{f}" for f in fmts}
            have = set()
            for root, _, files in os.walk(tmp):
                for fn in files:
                    have.add(os.path.relpath(os.path.join(root, fn), tmp))
            if not any(f['clause'] == 'raises' for f in res.failures):
                if have != want:
                    res.fail('files', 'files written differ from the requested ones', f'want={sorted(want)} have={sorted(have)}')
                elif any(os.path.getsize(os.path.join(tmp, f)) == 0 for f in have):
                    res.fail('files', 'an empty file was written', str(sorted(have)))
        figs1 = list(plt.get_fignums())
        if figs1 != figs0:
            res.fail('figures', 'a figure stays open with show=False', f'{figs0} -> {figs1} {what}')
            plt.close('all')
        rc1 = dict(matplotlib.rcParams)
        if rc1 != rc0:
            diff = sorted(k for k in set(rc0) | set(rc1) if rc0.get(k) != rc1.get(k))[:5]
            res.fail('rcparams', 'global matplotlib rcParams changed', f'{diff} {what}')
            matplotlib.rcParams.update(rc0)
        dd = None
        st1 = chunk_state(chunk)
        if st1['prms'] != state0['prms']:
            dd = 'prms'
        else:
            a = {k: v for k, v in state0.items() if k != 'prms'}
            b = {k: v for k, v in st1.items() if k != 'prms'}
            dd = observe.diff_snap(a, b)
        if dd:
            res.fail('chunk', 'plotting changed the chunk', f'{dd} {what}')
            state0 = st1
        if p['save'] is not None or (n_ceilos > 10 and p['show_ceilos']):
            nt = True
        key.append([p['upto'], p['show_ceilos'], p['ref_metar'] is not None, p['save'] and p['save']['fmts']])
        res.labels.append('upto:' + p['upto'])
        if p['save'] is not None:
            res.labels.append('save')
        if n_ceilos > 10 and p['show_ceilos'] and p['upto'] == 'raw_data':
            res.labels.append('>10-ceilos-shown')
    res.evals -= 1
    res.nontrivial = nt
    if has_vv:
        res.labels.append('VV')
    if max(sizes) > 8:
        res.labels.append('>8-sets')
    if chunk.n_slices == 0:
        res.labels.append('no-slices')
    res.labels = sorted(set(res.labels))
    res.key = key
    res.sample = {'cls': case['cls'], 'kind': case.get('kind'), 'n_rows': len(case['rows']), 'prms': case['prms'],
                  'sizes': sizes, 'n_ceilos': n_ceilos, 'plots': case['plots']}
    return res
