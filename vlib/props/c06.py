"""C06 - groups, and layers split from one group, respect the minimum separation."""
import copy
import math

from hypothesis import strategies as st

from vlib import observe, oracles, strategies as S
from vlib.runner import Result

ID = 'C06'
RULE = ('Cases = merge_chain (3-6 thin layers spaced 0.6-2.5x the min-sep, per-instrument offsets and visibility), '
        'limit_crossing (three thin decks around a MIN_SEP_LIMS value so that a merge moves the merged base into the next bin), split_candidate (2-3 height modes 0.5-3x the min-sep apart inside one group, >= 30 hits, modes with time '
        'trends), layered, ref_window; rows time-ascending / descending / shuffled / per-instrument, dt ties; x '
        'MIN_SEP_VALS / MIN_SEP_LIMS with 1-4 bins x BASE_LVL_HEIGHT_PERC x BASE_LVL_LOOKBACK_PERC (70% below 100) x '
        'EXCLUDE_FOR_BASE_HEIGHT_CALC (35% non-empty). Oracle: (groups) every adjacent pair of the groups table, sorted '
        'by reported base, is at least MIN_SEP_VALS[bin of the upper base] apart (1e-9 tol; on a bin limit either '
        'bin); (layers, only when no ceilometer is excluded) for every group whose final ncomp equals the raw number '
        'of mixture components chosen (observed by wrapping ampycloud.layer.best_gmm / ncomp_from_gmm from the '
        'harness: no re-merge happened) all its layers are pairwise at least the min-sep of the group base apart. '
        'Directed follow-up: when the component bases used inside the layering step (observed by the same spy) are further apart than the reported layer bases, the scene is re-run with MIN_SEP_VALS placed between the two distances and judged by the same clause. Non-trivial = a group merge happened (a twin run with all MIN_SEP_VALS = 1e-6 has more groups) or a split '
        'group satisfies the layer-clause precondition. Distinct by (class, row order, parameters, group/layer codes).')
ASSUMPTIONS = ['raw mixture count observed through a harness-side wrapper of module attributes looked up at call time',
               'min-sep of a group for the layer clause = bin of the group\'s reported base (exclusion empty there)',
               'crashes of run() are left to C08']
BUDGET = {'quick': 1300, 'thorough': 25000}
CORPUS = 'pipeline'
WEIGHTS = {'excl_merge': 2, 'merge_chain': 6, 'split_candidate': 6, 'double_split': 3, 'tie_split': 5, 'limit_crossing': 3, 'layered': 2, 'ref_window': 1}


@st.composite
def strategy_(draw):
    case = draw(S.pipeline_case(WEIGHTS, vary=('sep', 'okta'), p_default_prms=0.0))
    prms = case['prms']
    if case['cls'] == 'excl_merge':
        return case
    if case['cls'] != 'limit_crossing' and draw(st.integers(0, 9)) < 8:
        prms['BASE_LVL_HEIGHT_PERC'] = draw(st.sampled_from([0, 5, 5, 10, 50, 90, 100]))
        prms['BASE_LVL_LOOKBACK_PERC'] = draw(st.sampled_from([100, 100, 100, 75, 50, 50, 30, 30, 20, 10, 5, 2]))
    if draw(st.integers(0, 99)) < 35:
        names = sorted(set(r[0] for r in case['rows']))
        prms['EXCLUDE_FOR_BASE_HEIGHT_CALC'] = sorted(draw(st.sets(
            st.sampled_from(names), min_size=1, max_size=max(1, len(names) - 1))))
    return case


def strategy(tier):
    return strategy_()


def row_order(rows):
    dts = [r[1] for r in rows]
    if all(a <= b for a, b in zip(dts, dts[1:])):
        return 'asc'
    if all(a >= b for a, b in zip(dts, dts[1:])):
        return 'desc'
    return 'mixed'


class GmmSpy:
    """ Records, for every ncomp_from_gmm call made by find_layers, the raw and the final count. """

    def __enter__(self):
        from ampycloud import layer
        from ampycloud.utils import utils as autils
        self.layer, self.autils = layer, autils
        self.calls = []
        self.orig_best, self.orig_ncomp = layer.best_gmm, layer.ncomp_from_gmm
        self.orig_cbh = autils.calc_base_height
        self._inside = False
        self._bases = []
        spy = self

        def calc_base_height(*a, **k):
            out = spy.orig_cbh(*a, **k)
            if spy._inside:
                spy._bases.append(float(out))
            return out

        def best_gmm(*a, **k):
            out = spy.orig_best(*a, **k)
            spy._raw = int(out) + 1
            return out

        def ncomp_from_gmm(*a, **k):
            spy._raw = 1
            spy._inside, spy._bases = True, []
            try:
                out = spy.orig_ncomp(*a, **k)
            finally:
                spy._inside = False
            spy.calls.append({'raw': spy._raw, 'final': int(out[0]), 'min_sep': k.get('min_sep'),
                              'comp_bases': sorted(spy._bases)})
            return out

        layer.best_gmm, layer.ncomp_from_gmm = best_gmm, ncomp_from_gmm
        autils.calc_base_height = calc_base_height
        return self

    def __exit__(self, *exc):
        self.layer.best_gmm, self.layer.ncomp_from_gmm = self.orig_best, self.orig_ncomp
        self.autils.calc_base_height = self.orig_cbh
        return False


def check(case, depth=0):
    res = Result()
    order = row_order(case['rows'])
    res.labels = [case['cls'], 'rows-' + order]
    prms = case['prms']
    try:
        with GmmSpy() as spy:
            chunk = observe.run_case(case)
        twin = copy.deepcopy(case)
        nv = len(oracles.prm(prms, 'MIN_SEP_VALS'))
        twin['prms']['MIN_SEP_VALS'] = [1e-6] * nv
        tchunk = observe.run_case(twin)
    except Exception as exc:
        res.skipped = 'run crashed: ' + observe.crash_sig(exc)
        return res
    res.evals = 2
    lims, vals = oracles.prm(prms, 'MIN_SEP_LIMS'), oracles.prm(prms, 'MIN_SEP_VALS')
    excl = oracles.prm(prms, 'EXCLUDE_FOR_BASE_HEIGHT_CALC')
    lookback = oracles.prm(prms, 'BASE_LVL_LOOKBACK_PERC')
    groups = observe.table_rows(chunk.groups)
    merged = tchunk.n_groups > chunk.n_groups
    ctx = f'order={order} lookback={lookback} perc={oracles.prm(prms, "BASE_LVL_HEIGHT_PERC")} excl={excl} ' \
          f'lims={lims} vals={vals}'
    # -- group clause
    for lo, hi in zip(groups, groups[1:]):
        need = min(oracles.min_sep_for(hi['height_base'], lims, vals))
        diff = hi['height_base'] - lo['height_base']
        if diff < need - 1e-9:
            res.fail('groups', 'groups closer than the minimum separation'
                     + (' (exclusion active)' if excl else '') + ('' if merged else ' (no merge happened)'),
                     f"bases {lo['height_base']!r} / {hi['height_base']!r} diff={diff} need={need} {ctx}")
    # -- layer clause
    eligible = 0
    if not excl:
        layers = observe.table_rows(chunk.layers)
        gl = {}
        for g, l in zip(chunk.data['group_id'].tolist(), chunk.data['layer_id'].tolist()):
            if l >= 0:
                gl.setdefault(int(g), set()).add(int(l))
        base_of = {r['cluster_id']: r['height_base'] for r in layers}
        gmm_groups = [g for g in groups if g['ncomp'] != -1]
        calls = spy.calls
        if len(calls) != len(gmm_groups):
            res.skipped = 'gmm spy could not be aligned with the groups table'
        else:
            for g, call in zip(gmm_groups, calls):
                if g['ncomp'] != call['final']:
                    res.skipped = 'gmm spy misaligned'
                    break
                if g['ncomp'] <= 1 or call['raw'] != call['final']:
                    if call['raw'] != call['final']:
                        res.labels.append('re-merged(excluded)')
                    continue
                eligible += 1
                need = min(oracles.min_sep_for(g['height_base'], lims, vals))
                bs = sorted(base_of[l] for l in gl.get(g['cluster_id'], ()))
                # Directed follow-up: if the component bases the layering decided on are further apart than
                # the bases finally reported, re-run the same scene with a minimum separation placed between
                # the two distances. A sound implementation offers no such gap; if one exists, the derived run
                # is an ordinary case of the property and is judged by the ordinary clause.
                cs = call.get('comp_bases') or []
                if depth == 0 and len(cs) == len(bs) and len(bs) >= 2:
                    gaps = [(bs[i + 1] - bs[i], cs[i + 1] - cs[i]) for i in range(len(bs) - 1)]
                    cand = [(dr, di) for dr, di in gaps if di - dr > 1e-9 and dr >= 0]
                    if cand:
                        dr, di = min(cand)
                        m = dr + 0.75 * (di - dr)
                        derived = copy.deepcopy(case)
                        derived['prms']['MIN_SEP_VALS'] = [m] * len(vals)
                        sub = check(derived, depth=1)
                        res.evals += sub.evals
                        res.labels.append('derived-search')
                        for f in sub.failures:
                            if f['clause'] == 'layers':
                                res.fail('layers', f['sig'] + ' [derived: min-sep placed between decided and reported '
                                         'distance]', f"MIN_SEP_VALS={m!r}: " + f['detail'])
                for a, b in zip(bs, bs[1:]):
                    if b - a < need - 1e-9:
                        res.fail('layers', 'split layers closer than the minimum separation'
                                 + (f' (look-back<100, rows {order})' if lookback < 100 else ''),
                                 f"group {g['code']} ncomp={g['ncomp']} layer bases={bs} diff={b - a} need={need} {ctx}")
    if merged:
        res.labels.append('merge-happened')
    if eligible:
        res.labels.append('split-eligible')
    if excl:
        res.labels.append('exclusion')
    if lookback < 100:
        res.labels.append('lookback<100')
    res.nontrivial = merged or eligible > 0
    res.key = [case['cls'], order, prms, [g['code'] for g in groups],
               [r['code'] for r in observe.table_rows(chunk.layers)]]
    res.sample = {'cls': case['cls'], 'rows': order, 'n_rows': len(case['rows']), 'prms': prms,
                  'groups': [(g['code'], g['height_base'], g['ncomp']) for g in groups],
                  'layers': [(r['code'], r['height_base']) for r in observe.table_rows(chunk.layers)],
                  'twin_n_groups': tchunk.n_groups}
    return res
