"""C11 - running never modifies caller data, caller parameters or the global parameters."""
import copy

import hypothesis
import numpy as np
import pandas as pd
from hypothesis import strategies as st
from hypothesis.stateful import RuleBasedStateMachine, initialize, invariant, precondition, rule

from vlib import observe, oracles, strategies as S
from vlib import runner
from vlib.runner import Result

ID = 'C11'
RULE = ('Histories (Hypothesis RuleBasedStateMachine, <= 25 steps) over the ops: build a chunk from (one of 1-3 drawn '
        'small scenes in a drawn frame variant: canonical / extra columns / non-canonical dtypes / odd index; a nested '
        'partial per-call dict over existing leaves with 0-2 unknown keys at any depth) | ampycloud.run() in one go | run '
        'one stage / the remaining stages / metar_msg on a live chunk | set a leaf of the global dict, replace a nested '
        'dict or list in it, or edit a nested list in place | edit a live chunk\'s snapshot in place (nested leaf, '
        'list.append) | reset_prms() | an epilogue op that names a present instrument of every scene in the global exclusion list and then lets every earlier-built chunk finish its stages. Model = deep copies kept by the harness. After every op: each caller frame (values, '
        'dtypes, index, columns) and each caller dict deep-equals its pre-call copy; a chunk that has completed its stages without harness edits of its own snapshot shows bit-exactly the result of a fresh run of the same frame under reset globals with its snapshot handed over per call (behavioural form of the snapshot clause); the global dict equals the model '
        'global (changed only by the harness\'s own edits); every live chunk\'s prms equals its model snapshot '
        '(construction-time global overridden by the known per-call keys, plus the harness\'s own edits of that chunk). '
        'Non-trivial = the history holds a nested in-place edit (global or chunk) followed by a construction, or a run on '
        'a frame variant with extra columns / non-canonical dtypes. Distinct by the op-kind sequence and its arguments.')
ASSUMPTIONS = ['aliasing between a chunk snapshot and list *values* of the caller\'s per-call dict is not asserted (the '
               'statement does not claim it): the harness never edits such shared lists in place',
               'crashes of stage calls are left to C08/C14 (the op is skipped and counted)']
BUDGET = {'quick': 0, 'thorough': 0}
HISTORIES = {'quick': 320, 'thorough': 4000}
STEPS = 25


def small_scene():
    return st.one_of(S.scene_layered(max_layers=2, n_t=(3, 12), n_ceilos=(1, 2)),
                     S.scene_degenerate(kinds=['single_hit', 'all_nan', 'identical', 'two_heights', 'two_heights_30',
                                                'identical30']))


FRAME_VARIANTS = ['canonical', 'extra', 'dtypes', 'index', 'extra+dtypes']


def make_frame(rows, variant):
    df = observe.build_frame(rows)
    if 'extra' in variant:
        df['slice_id'] = 99
        df['note'] = 'x'
    if 'dtypes' in variant:
        df['ceilo'] = df['ceilo'].astype(object)
        df['type'] = df['type'].astype('int8')
        if not df['dt'].isna().any() and (df['dt'] == df['dt'].round()).all():
            df['dt'] = df['dt'].astype('int64')
    if variant == 'index':
        df.index = pd.Index([f'i{k}' for k in range(len(df))])
    return df


def frame_sig(df):
    return (list(df.columns), [str(t) for t in df.dtypes], list(df.index),
            [[observe.fhex(v) for v in df[c].tolist()] for c in df.columns])


def model_override(ref, new):
    """ Own model of 'per-call values override only the keys named; unknown keys are ignored'. """
    for k, v in new.items():
        if k not in ref:
            continue
        if isinstance(v, dict) and isinstance(ref[k], dict):
            model_override(ref[k], v)
        else:
            ref[k] = copy.deepcopy(v)
    return ref


def get_path(dct, path):
    for k in path:
        dct = dct[k]
    return dct


class Interp:
    """ Executes ops against ampycloud and the model; used by the machine and by replays. """

    def __init__(self, scenes):
        import ampycloud
        from ampycloud import dynamic
        self.amp, self.dynamic = ampycloud, dynamic
        ampycloud.reset_prms()
        self.scenes = scenes
        self.model_global = copy.deepcopy(dynamic.AMPYCLOUD_PRMS)
        self.defaults = copy.deepcopy(dynamic.AMPYCLOUD_PRMS)
        self.frames = []     # (frame, signature at hand-over)
        self.dicts = []      # (dict, deep copy)
        self.chunks = []     # {'chunk', 'model', 'stage'}
        self.failures = []
        self.kinds = []
        self.skipped = 0
        self.nested_edit_seen = False
        self.nontrivial = False

    def close(self):
        self.amp.reset_prms()

    def fail(self, clause, sig, detail=''):
        self.failures.append(runner.failure(clause, sig, detail))

    # -- ops ------------------------------------------------------------------------------------
    def apply(self, op):
        kind = op['op']
        self.kinds.append(kind)
        try:
            getattr(self, 'op_' + kind)(op)
        except Exception as exc:  # crash of a stage on valid input: not this property's business
            from ampycloud.errors import AmpycloudError
            self.skipped += 1
            if not isinstance(exc, AmpycloudError):
                self.kinds[-1] = kind + '!crash:' + observe.crash_sig(exc)
        self.check_invariants(kind)

    def _handover(self, op):
        rows = self.scenes[op['scene'] % len(self.scenes)]['rows']
        frame = make_frame(rows, op['variant'])
        self.frames.append((frame, frame_sig(frame)))
        prms = copy.deepcopy(op['prms'])
        if prms is not None:
            self.dicts.append((prms, copy.deepcopy(prms)))
        expected = copy.deepcopy(self.model_global)
        if prms is not None:
            model_override(expected, prms)
        if op['variant'] != 'canonical':
            self.touched_variant = True
        return frame, prms, expected

    def op_build(self, op):
        from ampycloud.data import CeiloChunk
        frame, prms, expected = self._handover(op)
        if self.nested_edit_seen:
            self.nontrivial = True
        chunk = CeiloChunk(frame, prms=prms)
        self.chunks.append({'chunk': chunk, 'model': expected, 'stage': 0, 'variant': op['variant'], 'frame': frame,
                            'model_at_build': copy.deepcopy(expected)})

    def op_run_api(self, op):
        frame, prms, expected = self._handover(op)
        if self.nested_edit_seen or op['variant'] != 'canonical':
            self.nontrivial = True
        chunk = self.amp.run(frame, prms=prms)
        chunk.metar_msg()
        self.chunks.append({'chunk': chunk, 'model': expected, 'stage': 3, 'variant': op['variant'], 'frame': frame,
                            'model_at_build': copy.deepcopy(expected)})
        self._behaves_like_snapshot(self.chunks[-1])

    def op_stage(self, op):
        if not self.chunks:
            return
        ent = self.chunks[op['chunk'] % len(self.chunks)]
        ch = ent['chunk']
        todo = 1 if op['how'] == 'one' else 3
        for _ in range(todo):
            if ent['stage'] == 0:
                ch.find_slices()
            elif ent['stage'] == 1:
                ch.find_groups()
            elif ent['stage'] == 2:
                ch.find_layers()
            else:
                ch.metar_msg()
                break
            ent['stage'] += 1
        if ent['variant'] != 'canonical':
            self.nontrivial = True
        if ent['stage'] >= 3:
            self._behaves_like_snapshot(ent)

    def _behaves_like_snapshot(self, ent):
        """ The finished chunk must show exactly what its own snapshot implies, whatever the global set held while
        its stages ran: compare with a fresh run of the same frame under reset globals with the full snapshot
        handed over per call. """
        if ent.get('compared'):
            return
        ent['compared'] = True
        saved = copy.deepcopy(self.dynamic.AMPYCLOUD_PRMS)
        try:
            self.amp.reset_prms()
            ref = self.amp.run(ent['frame'].copy(deep=True), prms=copy.deepcopy(ent['model_at_build']))
            dd = observe.diff_snap(observe.snapshot(ref), observe.snapshot(ent['chunk']))
        except Exception:
            dd = None
        finally:
            self.dynamic.AMPYCLOUD_PRMS = saved
        if dd:
            self.fail('snapshot-behaviour', 'chunk result differs from what its private parameter snapshot implies',
                      dd)

    def op_edit_global(self, op):
        g = self.dynamic.AMPYCLOUD_PRMS
        self._edit(g, self.model_global, op)

    def op_edit_chunk(self, op):
        if not self.chunks:
            return
        ent = self.chunks[op['chunk'] % len(self.chunks)]
        self._edit(ent['chunk'].prms, ent['model'], op, avoid_alias=True)
        ent['compared'] = True     # its parameters were edited by the harness mid-way: no single snapshot applies

    def _edit(self, real, model, op, avoid_alias=False):
        how, path, val = op['how'], tuple(op['path']), op['val']
        if how == 'append':
            tgt_r, tgt_m = get_path(real, path), get_path(model, path)
            shared = avoid_alias and any(tgt_r is get_path(d, path) for d, _ in self.dicts
                                         if self._has(d, path))
            if isinstance(tgt_r, list) and not shared:
                tgt_r.append(val)
                tgt_m.append(val)
                self.nested_edit_seen = True
                return
            how = 'set'
            val = (list(tgt_m) + [val]) if isinstance(tgt_m, list) else val
        if how == 'set':
            par_r, par_m = get_path(real, path[:-1]), get_path(model, path[:-1])
            par_r[path[-1]] = copy.deepcopy(val)
            par_m[path[-1]] = copy.deepcopy(val)
            if len(path) > 1:
                self.nested_edit_seen = True
        elif how == 'replace_section':
            sec = path[0]
            real[sec] = copy.deepcopy(self.defaults[sec])
            model[sec] = copy.deepcopy(self.defaults[sec])
            self.nested_edit_seen = True

    @staticmethod
    def _has(dct, path):
        try:
            get_path(dct, path)
            return True
        except (KeyError, TypeError):
            return False

    def op_exclude_present(self, op):
        rows = self.scenes[op['scene'] % len(self.scenes)]['rows']
        names = sorted(set(r[0] for r in rows))
        name = names[op['which'] % len(names)]
        self.dynamic.AMPYCLOUD_PRMS['EXCLUDE_FOR_BASE_HEIGHT_CALC'].append(name)
        self.model_global['EXCLUDE_FOR_BASE_HEIGHT_CALC'].append(name)
        self.nested_edit_seen = True

    def op_epilogue(self, op):
        """ Name a present instrument of every scene in the global exclusion list, then let every chunk that was
        built earlier finish its stages: none of them may notice. """
        for k in range(len(self.scenes)):
            self.op_exclude_present({'scene': k, 'which': op.get('which', 0)})
        for ent in self.chunks:
            if ent['stage'] < 3 and not ent.get('compared'):
                ch = ent['chunk']
                while ent['stage'] < 3:
                    (ch.find_slices, ch.find_groups, ch.find_layers)[ent['stage']]()
                    ent['stage'] += 1
                self._behaves_like_snapshot(ent)
        self.nontrivial = self.nontrivial or bool(self.chunks)

    def op_reset(self, op):
        self.amp.reset_prms()
        self.model_global = copy.deepcopy(self.defaults)

    # -- invariants -----------------------------------------------------------------------------
    def check_invariants(self, kind):
        for i, (frame, sig) in enumerate(self.frames):
            now = frame_sig(frame)
            if now != sig:
                what = 'columns' if now[0] != sig[0] else 'dtypes' if now[1] != sig[1] else \
                    'index' if now[2] != sig[2] else 'values'
                self.fail('caller-frame', f'caller DataFrame modified ({what})', f'after {kind}; frame #{i}')
                self.frames[i] = (frame, now)
        for i, (dct, cp) in enumerate(self.dicts):
            if dct != cp:
                self.fail('caller-dict', 'caller parameter dict modified', f'after {kind}: {dct} vs {cp}')
                self.dicts[i] = (dct, copy.deepcopy(dct))
        if self.dynamic.AMPYCLOUD_PRMS != self.model_global:
            self.fail('global', f'global parameters changed by {kind.split("!")[0]}',
                      _dict_diff(self.model_global, self.dynamic.AMPYCLOUD_PRMS))
            self.model_global = copy.deepcopy(self.dynamic.AMPYCLOUD_PRMS)
        for i, ent in enumerate(self.chunks):
            if ent['chunk'].prms != ent['model']:
                self.fail('snapshot', 'chunk parameters differ from its private snapshot model '
                          f'(after {kind.split("!")[0]})', _dict_diff(ent['model'], ent['chunk'].prms))
                ent['model'] = copy.deepcopy(ent['chunk'].prms)


def _dict_diff(a, b, pre=''):
    if isinstance(a, dict) and isinstance(b, dict):
        for k in sorted(set(a) | set(b), key=str):
            if k not in a or k not in b:
                return f'{pre}{k}: only on one side'
            d = _dict_diff(a[k], b[k], pre + str(k) + '.')
            if d:
                return d
        return ''
    return '' if a == b and type(a) is type(b) else f'{pre[:-1]}: expected {a!r} got {b!r}'


# ------------------------------------------------------------------------------------------------


def run_history(case):
    """ -> Result. case = {'scenes': [...], 'ops': [...]} """
    res = Result()
    it = Interp(case['scenes'])
    try:
        for op in case['ops']:
            it.apply(op)
            if it.failures:
                break
    finally:
        it.close()
    res.failures = it.failures
    res.nontrivial = it.nontrivial
    res.evals = len(case['ops'])
    res.key = [it.kinds, [o.get('prms') for o in case['ops']], [o.get('path') for o in case['ops']]]
    res.labels = sorted(set(k for k in it.kinds)) + (['skipped-op'] if it.skipped else [])
    res.sample = {'n_scenes': len(case['scenes']), 'ops': [_short(o) for o in case['ops']]}
    return res


def _short(op):
    return {k: v for k, v in op.items() if k != 'scene'}


def check(case):
    return run_history(case)


# strategies for op arguments
EDIT_PATHS = [(('MSA',), [None, 4000, 12000]), (('MAX_HITS_OKTA0',), [0, 5]),
              (('SLICING_PRMS', 'dt_scale'), [500, 100000]), (('LAYERING_PRMS', 'gmm_kwargs', 'scores'), ['AIC', 'BIC']),
              (('LOWESS', 'frac'), [0.2, 0.9]), (('GROUPING_PRMS', 'height_scale_range'), [[10, 20], [100, 500]]),
              (('MIN_SEP_VALS',), [[250, 1000], [300, 900]])]
APPEND_VALS = [(('EXCLUDE_FOR_BASE_HEIGHT_CALC',), 'a'), (('EXCLUDE_FOR_BASE_HEIGHT_CALC',), 'zz'),
               (('GROUPING_PRMS', 'height_scale_range'), 250), (('GROUPING_PRMS', 'height_scale_range'), 7)]


@st.composite
def prms_arg(draw):
    if draw(st.integers(0, 9)) < 2:
        return None
    p = draw(S.leaf_assignment(0, 5))
    p, _ = draw(S.with_unknown_keys(p, p=4))
    return p


def make_machine(ctx, sink):
    class Machine(RuleBasedStateMachine):
        def __init__(self):
            super().__init__()
            self.it = None
            self.ops = []
            self.scenes = None

        @initialize(scenes=st.lists(small_scene(), min_size=1, max_size=3))
        def init(self, scenes):
            self.scenes = [{'rows': s['rows'][:60]} for s in scenes]
            self.it = Interp(self.scenes)

        def do(self, op):
            self.ops.append(op)
            self.it.apply(op)
            if self.it.failures:
                new = [f for f in self.it.failures if ctx.is_known(f) is None]
                if new:
                    sink['case'] = {'scenes': self.scenes, 'ops': list(self.ops)}
                    raise runner.PropFail()

        @rule(scene=st.integers(0, 2), variant=st.sampled_from(FRAME_VARIANTS), prms=prms_arg())
        def build(self, scene, variant, prms):
            self.do({'op': 'build', 'scene': scene, 'variant': variant, 'prms': prms})

        @rule(scene=st.integers(0, 2), variant=st.sampled_from(FRAME_VARIANTS), prms=prms_arg())
        def run_api(self, scene, variant, prms):
            self.do({'op': 'run_api', 'scene': scene, 'variant': variant, 'prms': prms})

        @precondition(lambda self: self.it is not None and self.it.chunks)
        @rule(chunk=st.integers(0, 5), how=st.sampled_from(['one', 'one', 'all']))
        def stage(self, chunk, how):
            self.do({'op': 'stage', 'chunk': chunk, 'how': how})

        @rule(pv=st.sampled_from(EDIT_PATHS).flatmap(lambda t: st.tuples(st.just(t[0]), st.sampled_from(t[1]))))
        def edit_global_set(self, pv):
            self.do({'op': 'edit_global', 'how': 'set', 'path': list(pv[0]), 'val': pv[1]})

        @rule(pv=st.sampled_from(APPEND_VALS))
        def edit_global_append(self, pv):
            path, val = pv
            self.do({'op': 'edit_global', 'how': 'append', 'path': list(path), 'val': val})

        @rule(sec=st.sampled_from(['SLICING_PRMS', 'LAYERING_PRMS', 'LOWESS']))
        def edit_global_replace(self, sec):
            self.do({'op': 'edit_global', 'how': 'replace_section', 'path': [sec], 'val': None})

        @precondition(lambda self: self.it is not None and self.it.chunks)
        @rule(chunk=st.integers(0, 5),
              pv=st.sampled_from(EDIT_PATHS).flatmap(lambda t: st.tuples(st.just(t[0]), st.sampled_from(t[1]))))
        def edit_chunk_set(self, chunk, pv):
            self.do({'op': 'edit_chunk', 'chunk': chunk, 'how': 'set', 'path': list(pv[0]), 'val': pv[1]})

        @precondition(lambda self: self.it is not None and self.it.chunks)
        @rule(chunk=st.integers(0, 5), pv=st.sampled_from(APPEND_VALS))
        def edit_chunk_append(self, chunk, pv):
            path, val = pv
            self.do({'op': 'edit_chunk', 'chunk': chunk, 'how': 'append', 'path': list(path), 'val': val})

        @rule(scene=st.integers(0, 2), which=st.integers(0, 3))
        def exclude_present(self, scene, which):
            self.do({'op': 'exclude_present', 'scene': scene, 'which': which})

        @precondition(lambda self: self.it is not None and self.it.chunks)
        @rule(which=st.integers(0, 2))
        def epilogue(self, which):
            self.do({'op': 'epilogue', 'which': which})

        @rule()
        def reset(self):
            self.do({'op': 'reset'})

        def teardown(self):
            if self.it is None:
                return
            self.it.close()
            res = Result()
            res.failures = list(self.it.failures)
            res.nontrivial = self.it.nontrivial
            res.evals = len(self.ops)
            res.key = [self.it.kinds, [o.get('prms') for o in self.ops], [o.get('path') for o in self.ops]]
            res.labels = sorted(set(self.it.kinds)) + (['skipped-op'] if self.it.skipped else [])
            res.sample = {'n_scenes': len(self.scenes), 'ops': [_short(o) for o in self.ops]}
            ctx.record({'scenes': self.scenes, 'ops': list(self.ops)}, res, overwrite=True)

    return Machine


def jobs(tier, seed):
    n = HISTORIES[tier]
    nsh = 16
    return [{'name': f'machine-{i}', 'seed': runner.derive_seed(seed, ID, 'machine', i), 'n': n // nsh}
            for i in range(nsh)]


def run_job(job, ctx):
    sink = {}
    runner.machine_explore(ctx, make_machine(ctx, sink), job['n'], job['seed'], steps=STEPS)
