"""C07 - hits above MSA+buffer never influence the result; those below are kept intact."""
import collections
import math

from hypothesis import strategies as st

from vlib import observe, oracles, strategies as S
from vlib.runner import Result
from vlib.props.c05 import rowkey

ID = 'C07'
RULE = ('Cases = generated scene (layered with 1-5 hits per measurement and VV hits, exact_counts, split_candidate, '
        'merge_chain, ref_window) x MSA placed relative to the hit heights (limit or MSA exactly on a hit, +-1/50/500 ft '
        'around one, below all, above all, 0, None) x MSA_HIT_BUFFER incl. 0 x MAX_HITS_OKTA0 x separation / base '
        'parameters. Metamorphic oracle, bit-exact: A = original; B1 = every height above the limit replaced by another '
        'value above the limit (next float above the limit, +0.5, +1, up to +50000 ft) => the three tables, the three '
        'messages and the flag are identical; B2 = crop model applied to the input (type <= 1 above -> non-detection, '
        'type >= 2 above -> removed; skipped and counted when the screening model rejects the transformed frame) => '
        'the three tables identical. Always: the multiset of rows at/below the limit in chunk.data equals the input\'s, '
        'flag == (#above > MAX_HITS_OKTA0), and with MSA None (also when requested per call over a global MSA) chunk.data equals the input and the flag is false. '
        'Non-trivial = at least one hit above and one at/below the limit. Distinct by (class, #above, #on-limit, '
        'types above, MSA parameters, layer codes).')
ASSUMPTIONS = ['message and flag are not compared for B2: the number of hits above the limit changes by design',
               'crashes of run() are left to C08']
BUDGET = {'quick': 900, 'thorough': 12000}
CORPUS = 'pipeline'


def from_corpus(case):
    return dict(case, redraw=[0.0, 1.0, 1000.0])
WEIGHTS = {'layered': 8, 'bundle_stress': 4, 'exact_counts': 3, 'split_candidate': 2, 'merge_chain': 2, 'ref_window': 2}


@st.composite
def strategy_(draw):
    case = draw(S.pipeline_case(WEIGHTS, vary=('msa', 'okta', 'sep', 'base'), p_default_prms=0.0, index_kinds=True,
                                anomalies=True, anomaly_negative=False,
                                msa_kinds=['athit'] * 4 + ['near'] * 3 + ['low', 'high', 'zero', 'none']))
    if case['prms'].get('MSA', None) is None and draw(st.booleans()):
        # "no MSA" requested per call while the global set holds one: nothing may be cropped
        hs = S.heights_of(case)
        case['prms']['MSA'] = None
        case['gprms'] = {'MSA': int(hs[len(hs) // 2]) if hs else 1000, 'MSA_HIT_BUFFER': 0}
    case['redraw'] = draw(st.lists(st.sampled_from([0.0, 0.5, 1.0, 7.0, 100.0, 1000.0, 20000.0, 50000.0]),
                                   min_size=1, max_size=8))
    return case


def strategy(tier):
    return strategy_()


def tables_of(chunk):
    return {w: observe.table_snapshot(getattr(chunk, w)) for w in ('slices', 'groups', 'layers')}


def check(case):
    res = Result()
    res.labels = [case['cls']]
    prms = case['prms']
    msa = oracles.prm(prms, 'MSA')
    rows = case['rows']
    try:
        a = observe.run_case(case)
    except Exception as exc:
        res.skipped = 'run crashed: ' + observe.crash_sig(exc)
        return res
    exp_rows, n_above, flag = oracles.crop_model(rows, prms)
    max0 = oracles.prm(prms, 'MAX_HITS_OKTA0')
    if bool(a.clouds_above_msa_buffer) != flag:
        res.fail('flag', 'flag != (#hits above the limit > MAX_HITS_OKTA0)',
                 f'flag={a.clouds_above_msa_buffer} n_above={n_above} max0={max0} msa={msa}')
    d = a.data
    got = collections.Counter(rowkey(*r) for r in zip(d['ceilo'].tolist(), d['dt'].tolist(), d['height'].tolist(),
                                                      d['type'].tolist()))
    if msa is None:
        if got != collections.Counter(rowkey(*r) for r in rows):
            res.fail('nomsa', 'rows changed although no MSA is set', '')
        res.labels.append('msa-none')
        res.key = ['none', case['cls']]
        return res
    lim = msa + oracles.prm(prms, 'MSA_HIT_BUFFER')
    below_in = collections.Counter(rowkey(*r) for r in rows if not (r[2] is not None and r[2] > lim))
    below_got = collections.Counter(k for k in got.elements()
                                    if not (k[2] is not None and k[2] > lim))
    # the cropped type<=1 hits show up as extra non-detections: remove them before comparing
    extra_nd = collections.Counter(rowkey(r[0], r[1], None, 0) for r in rows
                                   if r[2] is not None and r[2] > lim and r[3] <= 1)
    if below_got - extra_nd != below_in or any(k[2] is not None and k[2] > lim for k in got):
        res.fail('intact', 'hits at/below the limit not kept intact (or a hit above survived)',
                 f'lim={lim} lost={list((below_in - (below_got - extra_nd)).items())[:3]} '
                 f'extra={list(((below_got - extra_nd) - below_in).items())[:3]} '
                 f'above-left={[k for k in got if k[2] is not None and k[2] > lim][:3]}')
    above = [i for i, r in enumerate(rows) if r[2] is not None and r[2] > lim]
    on_limit = sum(1 for r in rows if r[2] is not None and r[2] == lim)
    ta = tables_of(a)
    msgs_a = observe.messages(a)
    n_below = sum(1 for r in rows if r[2] is not None and r[2] <= lim)
    if above:
        # ---- B1: other heights above the limit
        rows1 = [list(r) for r in rows]
        for j, i in enumerate(above):
            delta = case['redraw'][j % len(case['redraw'])]
            rows1[i][2] = math.nextafter(lim, math.inf) if delta == 0 else lim + delta
        if len(set(map(tuple, rows1))) == len(rows1):
            try:
                b1 = observe.run_case(dict(case, rows=rows1))
                res.evals += 1
                dd = observe.diff_snap(ta, tables_of(b1))
                if dd:
                    res.fail('inert', 'tables depend on the heights of hits above the limit', dd + f' lim={lim}')
                if observe.messages(b1) != msgs_a:
                    res.fail('inert', 'message depends on the heights of hits above the limit',
                             f'{msgs_a} vs {observe.messages(b1)}')
                if bool(b1.clouds_above_msa_buffer) != bool(a.clouds_above_msa_buffer):
                    res.fail('inert', 'flag depends on the heights of hits above the limit', '')
            except Exception as exc:
                res.fail('inert', 'variant with other heights above the limit crashed: ' + observe.crash_sig(exc),
                         repr(exc))
        # ---- B2: replaced by non-detections
        rows2 = exp_rows
        if rows2 and oracles.screening_model(rows2) is None:
            try:
                b2 = observe.run_case(dict(case, rows=rows2))
                res.evals += 1
                dd = observe.diff_snap(ta, tables_of(b2))
                if dd:
                    res.fail('inert', 'tables differ when hits above the limit are replaced by non-detections',
                             dd + f' lim={lim}')
            except Exception as exc:
                res.fail('inert', 'variant with non-detections crashed: ' + observe.crash_sig(exc), repr(exc))
        else:
            res.skipped = 'B2 frame rejected by the screening model'
    res.nontrivial = bool(above) and n_below > 0
    types_above = sorted(set(rows[i][3] for i in above))
    if case.get('index', 'range') != 'range':
        res.labels.append('index:' + case['index'])
    if on_limit:
        res.labels.append('hit-on-limit')
    if any(t >= 2 for t in types_above):
        res.labels.append('type>=2-above')
    if -1 in types_above:
        res.labels.append('VV-above')
    if abs(n_above - max0) <= 1:
        res.labels.append('n_above~max0')
    if above and n_below:
        res.labels.append('both-sides')
    res.key = [case['cls'], len(above), on_limit, types_above, msa, lim, max0, msgs_a['layers']]
    res.sample = {'cls': case['cls'], 'n_rows': len(rows), 'prms': prms, 'n_above': n_above, 'on_limit': on_limit,
                  'types_above': types_above, 'msg': msgs_a['layers']}
    return res
