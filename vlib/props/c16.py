"""C16 - ceilometer names are labels only: renaming them changes nothing."""
import copy

from hypothesis import strategies as st

from vlib import observe, oracles, strategies as S
from vlib.runner import Result

ID = 'C16'
RULE = ('Cases = generated multi-instrument scene (layered, merge_chain with per-instrument offsets, split_candidate, '
        'ref_window, exact_counts) x a drawn one-to-one renaming (order-reversing, names that sort differently as '
        "strings such as '9'/'10', prefix pairs 'a'/'aa', long and non-ASCII names, names padded with blanks / tabs, swaps among the existing names) "
        'applied to the frame and to EXCLUDE_FOR_BASE_HEIGHT_CALC x look-back / percentile / exclusion / MSA. '
        'Metamorphic oracle, bit-exact: the snapshot (three tables, three messages, flag, chunk.data with per-hit '
        'assignments) of the renamed run with the names mapped back equals the snapshot of the original run; the '
        'renamed run must not raise if the original does not. Non-trivial = >= 2 instruments and (the renaming changes '
        'the sort order of the names, or the exclusion list names a present instrument without covering all). '
        'Distinct by (class, order pattern of the new names, exclusion pattern, look-back engaged, layer codes).')
ASSUMPTIONS = ['crashes of the original run are left to C08 (skipped here)']
BUDGET = {'quick': 1100, 'thorough': 14000}
CORPUS = 'pipeline'


def from_corpus(case):
    names = sorted(set(r[0] for r in case['rows']))
    new = ['~z', 'a', '10', '9', ' ', 'Zz', '00', 'b', 'x1', 'x2', 'x3', 'x4', 'x5', 'x6'][:len(names)]
    return dict(case, rename=dict(zip(names, new)))
WEIGHTS = {'layered': 7, 'handover': 4, 'merge_chain': 4, 'split_candidate': 3, 'ref_window': 3, 'exact_counts': 2}
TARGETS = S.NAME_POOL + S.CONFUSABLE + ['', ' ', 'B', 'Z', 'z', '~', '!', '01', '001', 'a b', 'NaN', 'None', '-1']


@st.composite
def strategy_(draw):
    case = draw(S.pipeline_case(WEIGHTS, vary=('msa', 'okta', 'sep', 'base'), p_default_prms=0.1,
                                base_p_default=0.1, anomalies=True, anomaly_negative=False))
    names = sorted(set(r[0] for r in case['rows']))
    how = draw(st.sampled_from(['reverse', 'swap', 'fresh', 'fresh', 'fresh', 'padded', 'prefix']))
    if how == 'swap' and len(names) >= 2:
        new = list(draw(S.permutation(names)))
    elif how == 'padded':
        # the same names with leading / trailing blanks or tabs: spelling must not matter
        pads = draw(st.lists(st.sampled_from([' {}', '{} ', '\t{}', '{}\n', '  {}  ', '{}']), min_size=len(names),
                             max_size=len(names)))
        new = [p.format(n) for p, n in zip(pads, names)]
        if len(set(new)) < len(new):
            new = [f' {n}' for n in names]
    elif how == 'prefix':
        # names that are proper prefixes of one another, in a drawn order
        fam = draw(st.sampled_from([['1', '10', '100', '1000'], ['PO', 'PO.2', 'PO.2x', 'PO.2xy'], ['a', 'ab', 'abc', 'abcd']]))
        new = list(draw(S.permutation(fam)))[:len(names)] if len(names) <= 4 else [f'n{i}' for i in range(len(names))]
    elif how == 'reverse':
        fresh = sorted(draw(st.lists(st.sampled_from(TARGETS), min_size=len(names), max_size=len(names),
                                     unique=True)), reverse=True)
        new = fresh
    else:
        new = draw(st.lists(st.sampled_from(TARGETS), min_size=len(names), max_size=len(names), unique=True))
    case['rename'] = dict(zip(names, new))
    return case


def strategy(tier):
    return strategy_()


def check(case):
    res = Result()
    res.labels = [case['cls']]
    mp = case['rename']
    try:
        a = observe.run_case(case)
    except Exception as exc:
        res.skipped = 'original run crashed: ' + observe.crash_sig(exc)
        return res
    rows_b = [[mp[r[0]], r[1], r[2], r[3]] for r in case['rows']]
    prms_b = copy.deepcopy(case['prms'])
    excl = oracles.prm(case['prms'], 'EXCLUDE_FOR_BASE_HEIGHT_CALC')
    if excl:
        # absent names stay absent: map them to something that is not a new name either
        prms_b['EXCLUDE_FOR_BASE_HEIGHT_CALC'] = [mp[e] if e in mp else ('absent::' + e) for e in excl]
    res.evals = 2
    try:
        b = observe.run_case(dict(case, rows=rows_b, prms=prms_b))
    except Exception as exc:
        res.fail('raises', 'renamed run raises although the original does not: ' + observe.crash_sig(exc),
                 f'rename={mp} {exc!r}'[:500])
        b = None
    if b is not None:
        sa, sb = observe.snapshot(a), observe.snapshot(b)
        back = {v: k for k, v in mp.items()}
        sb['data']['ceilo'] = [back[c] for c in sb['data']['ceilo']]
        dd = observe.diff_snap(sa, sb)
        if dd:
            res.fail('differs', 'result depends on the ceilometer names', f'{dd} rename={mp} excl={excl}')
    names = sorted(mp)
    new_order = sorted(names, key=lambda n: mp[n])
    order_changed = new_order != names
    present_excl = [e for e in excl if e in mp]
    excl_effective = bool(present_excl) and len(present_excl) < len(names)
    res.nontrivial = len(names) >= 2 and (order_changed or excl_effective)
    if order_changed:
        res.labels.append('order-changed')
    if excl_effective:
        res.labels.append('exclusion-effective')
    lb = oracles.prm(case['prms'], 'BASE_LVL_LOOKBACK_PERC') < 100
    if lb:
        res.labels.append('lookback<100')
    res.labels.append(f'{min(len(names), 4)}-ceilos')
    res.key = [case['cls'], [names.index(n) for n in new_order], sorted(names.index(e) for e in present_excl), lb,
               observe.messages(a)['layers']]
    res.sample = {'cls': case['cls'], 'n_rows': len(case['rows']), 'prms': case['prms'], 'rename': mp,
                  'msg': observe.messages(a)['layers']}
    return res
