"""C05 - every hit is accounted for exactly once at every stage."""
import collections
import math

from hypothesis import strategies as st

from vlib import observe, oracles, strategies as S
from vlib import runner
from vlib.runner import Result

ID = 'C05'
RULE = ('Cases = generated scene (layered, split_candidate with >= 30 hits per group, merge_chain, bundle_stress, '
        'frames with plain / non-unique / equal / reversed / string index labels, degenerate: single valid hit / all-NaN / identical / two heights / ..., exact_counts, ref_window, plus '
        'dedicated many_slices cases with >= 102 slices below a splittable group) x slicing / grouping / layering '
        'parameters x MSA. Oracle (invariants): every valid-height row of chunk.data has slice, group and layer id '
        '>= 0 and every NaN row has -1 in all three; the multiset of (ceilo, dt, height, type) of chunk.data equals '
        'the crop model applied to the input; each table lists exactly the ids present (cluster_id set, no repeats, '
        'n_slices / n_groups / n_layers == len(table)); all hits of a layer share one group id; a group reported with '
        'ncomp = k > 1 owns exactly k layer ids, any other group exactly one. Non-trivial = a split group, or fewer '
        'groups than slices (grouping or merging acted), or >= 10 slices, or a degenerate class. Distinct by (class, '
        'n_slices, n_groups, n_layers, ncomp pattern, #NaN rows, #cropped).')
ASSUMPTIONS = ['crashes of run() are left to C08 (counted under skipped_precondition)']
BUDGET = {'quick': 1100, 'thorough': 25000}
CORPUS = 'pipeline'
MANY = {'quick': 6, 'thorough': 48}
WEIGHTS = {'layered': 6, 'split_candidate': 5, 'double_split': 4, 'merge_chain': 3, 'bundle_stress': 2, 'degenerate': 3,
           'exact_counts': 1, 'ref_window': 2}


def strategy(tier):
    return S.pipeline_case(WEIGHTS, vary=('msa', 'okta', 'sep', 'base', 'algo'), p_default_prms=0.2,
                           index_kinds=True, anomalies=True, anomaly_negative=False)


def rowkey(c, dt, h, t):
    return (str(c), float(dt), None if (h is None or (isinstance(h, float) and math.isnan(h))) else float(h),
            int(t))


def check(case):
    res = Result()
    res.labels = [case['cls']]
    try:
        chunk = observe.run_case(case)
    except Exception as exc:
        res.skipped = 'run crashed: ' + observe.crash_sig(exc)
        return res
    data = chunk.data
    cs, dts, hs, ts = (data[c].tolist() for c in ('ceilo', 'dt', 'height', 'type'))
    ids = {w: [int(v) for v in data[w + '_id'].tolist()] for w in ('slice', 'group', 'layer')}
    # -- conservation of hits
    exp_rows, n_above, _ = oracles.crop_model(case['rows'], case['prms'])
    got = collections.Counter(rowkey(*r) for r in zip(cs, dts, hs, ts))
    exp = collections.Counter(rowkey(*r) for r in exp_rows)
    if got != exp:
        extra = list((got - exp).items())[:3]
        missing = list((exp - got).items())[:3]
        res.fail('conservation', 'hits of chunk.data differ from the (cropped) input',
                 f'created/altered={extra} lost={missing}')
    # -- assignment
    for i, h in enumerate(hs):
        valid = not math.isnan(h)
        for w in ids:
            if valid and ids[w][i] < 0:
                res.fail('assigned', f'valid hit without a {w}', f'row {i}: {cs[i]}, {dts[i]}, {h}')
            if not valid and ids[w][i] != -1:
                res.fail('assigned', f'non-detection assigned to a {w}', f'row {i}: {ids[w][i]}')
    # -- tables list exactly the ids present
    for w, table, n in (('slice', chunk.slices, chunk.n_slices), ('group', chunk.groups, chunk.n_groups),
                        ('layer', chunk.layers, chunk.n_layers)):
        present = sorted(set(v for v in ids[w] if v >= 0))
        listed = sorted(int(v) for v in table['cluster_id'].tolist())
        if listed != present:
            res.fail('tables', f'{w}s table does not list exactly the ids present',
                     f'listed={listed[:12]} present={present[:12]} (len {len(listed)} vs {len(present)})')
        if n != len(present) or n != len(table):
            res.fail('counts', f'n_{w}s does not match', f'n={n} present={len(present)} table={len(table)}')
    # -- layers inside one group; ncomp
    groups_of_layer = collections.defaultdict(set)
    layers_of_group = collections.defaultdict(set)
    for g, l in zip(ids['group'], ids['layer']):
        if l >= 0:
            groups_of_layer[l].add(g)
            layers_of_group[g].add(l)
    for l, gs in groups_of_layer.items():
        if len(gs) != 1:
            res.fail('nesting', 'a layer spans several groups', f'layer {l} groups {sorted(gs)}')
    ncomps = []
    for row in observe.table_rows(chunk.groups):
        k = row['ncomp']
        ncomps.append(k)
        want = k if k > 1 else 1
        have = len(layers_of_group.get(row['cluster_id'], ()))
        if have != want:
            res.fail('ncomp', 'number of layers of a group differs from its sub-component count',
                     f"group {row['cluster_id']} ncomp={k} layers={sorted(layers_of_group.get(row['cluster_id'], ()))}")
    split = any(k > 1 for k in ncomps)
    res.nontrivial = split or (chunk.n_groups < chunk.n_slices) or chunk.n_slices >= 10 or \
        case['cls'] in ('degenerate', 'many_slices')
    if case.get('index', 'range') != 'range':
        res.labels.append('index:' + case['index'])
    if split:
        res.labels.append('split-group')
    if chunk.n_groups < chunk.n_slices:
        res.labels.append('groups<slices')
    if any(k >= 1 for k in ncomps):
        res.labels.append('gmm-engaged')
    if chunk.n_slices >= 100:
        res.labels.append('>=100-slices')
    res.key = [case['cls'], case.get('kind'), chunk.n_slices, chunk.n_groups, chunk.n_layers, sorted(ncomps),
               sum(1 for h in hs if math.isnan(h)), n_above]
    res.sample = {'cls': case['cls'], 'kind': case.get('kind'), 'n_rows': len(case['rows']), 'prms': case['prms'],
                  'n_slices': chunk.n_slices, 'n_groups': chunk.n_groups, 'n_layers': chunk.n_layers,
                  'ncomp': ncomps[:12]}
    return res


def jobs(tier, seed):
    return [{'name': f'many-slices-{i}', 'seed': runner.derive_seed(seed, ID, 'many', i)}
            for i in range(MANY[tier])]


def run_job(job, ctx):
    strat = S.scene_many_slices().map(lambda c: {'cls': c['cls'], 'rows': c['rows'], 'prms': c['prms_hint']})
    runner.hyp_explore(__import__('vlib.props.c05', fromlist=['x']), ctx, strat, 1, job['seed'])
