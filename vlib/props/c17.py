"""C17 - significance flags implement the ICAO 1-3-5 rule for every okta sequence."""
import itertools

from hypothesis import strategies as st

from vlib.runner import Result

ID = 'C17'
RULE = ('All okta sequences over 0..8 up to length L (quick L=5, thorough L=7) are enumerated '
        'exhaustively (all distinct by construction) and longer ones (<=60) are drawn by Hypothesis; '
        'oracle = independent 1-3-5 fold, len equality, prefix-stability of the flags, and a history clause: the same list object is edited in place (append / item assignment / pop / slice assignment) between calls and must be judged by its current content. A sequence '
        'is non-trivial when some element meets its deciding threshold with equality-or-one-below '
        '(okta in {0,1,2,3,4,5} compared against the live threshold) or it holds >= 4 candidates '
        '(okta >= 1), i.e. the cap of three matters.')
ASSUMPTIONS = ['oktas are Python ints 0..8 as passed by CeiloChunk.metarize (list from a pandas int column)']
BUDGET = {'quick': 3000, 'thorough': 60000}
HYP_SHRINK = True
ALL_EXHAUSTIVE = False
ENUM_LEN = {'quick': 5, 'thorough': 7}


def model(oktas):
    cnt, out = 0, []
    for o in oktas:
        sig = cnt < 3 and o >= (1, 3, 5)[cnt]
        out.append(bool(sig))
        cnt += sig
    return out


def nontrivial(oktas):
    cnt = 0
    close = False
    for o in oktas:
        if cnt < 3 and abs(o - (1, 3, 5)[cnt]) <= 1:
            close = True
        cnt += cnt < 3 and o >= (1, 3, 5)[cnt]
    return close or sum(1 for o in oktas if o >= 1) >= 4


def check_seq(oktas, res):
    from ampycloud import icao
    out = icao.significant_cloud(list(oktas))
    exp = model(oktas)
    if len(out) != len(oktas):
        res.fail('length', 'len(out)!=len(in)', f'{oktas} -> {out}')
        return
    if [bool(x) for x in out] != exp:
        res.fail('flags', 'flags!=1-3-5 fold', f'oktas={list(oktas)} got={out} expected={exp}')
        return
    if any(not isinstance(x, (bool,)) and type(x).__name__ != 'bool_' for x in out):
        res.fail('flags', 'non-bool flag', f'{out}')


def check(case):
    res = Result()
    oktas = case['oktas']
    check_seq(oktas, res)
    # prefix stability
    if not res.failures and len(oktas) <= 12:
        from ampycloud import icao
        full = icao.significant_cloud(list(oktas))
        for k in range(len(oktas)):
            if list(icao.significant_cloud(list(oktas[:k]))) != list(full[:k]):
                res.fail('prefix', 'prefix flags depend on layers above', f'{oktas} k={k}')
                break
    # history: the *same list object* is reused and edited in place between calls (a cache keyed on identity or
    # holding a reference to its key would answer from the past)
    if not res.failures:
        from ampycloud import icao
        work = list(oktas)
        icao.significant_cloud(work)
        for step, edit in enumerate(case.get('edits') or [['append', 8], ['set', 0, 0], ['pop']]):
            if edit[0] == 'append':
                work.append(edit[1])
            elif edit[0] == 'set' and work:
                work[edit[1] % len(work)] = edit[2]
            elif edit[0] == 'pop' and work:
                work.pop()
            got = icao.significant_cloud(work)
            if [bool(x) for x in got] != model(work):
                res.fail('history', 'flags of a list edited in place between two calls differ from the rule',
                         f'start={oktas} after edit #{step} {edit}: list={work} got={got} expected={model(work)}')
                break
    res.nontrivial = nontrivial(oktas)
    res.sample = {'oktas': oktas}
    res.labels = [f'len{min(len(oktas) // 10 * 10, 60)}+']
    return res


def strategy(tier):
    edit = st.one_of(st.tuples(st.just('append'), st.integers(0, 8)),
                     st.tuples(st.just('set'), st.integers(0, 59), st.integers(0, 8)),
                     st.tuples(st.just('pop'))).map(list)
    return st.builds(lambda o, e: {'oktas': o, 'edits': e}, st.lists(st.integers(0, 8), min_size=0, max_size=60),
                     st.lists(edit, min_size=1, max_size=4))


def jobs(tier, seed):
    # exhaustive enumeration, split by the first two elements
    L = ENUM_LEN[tier]
    out = [{'name': 'short', 'prefix': None, 'L': 2}]
    for a in range(9):
        for b in range(9):
            out.append({'name': f'enum-{a}{b}', 'prefix': [a, b], 'L': L})
    return out


def run_job(job, ctx):
    from ampycloud import icao
    st_ = ctx.stats
    if job['prefix'] is None:
        seqs = itertools.chain.from_iterable(itertools.product(range(9), repeat=n) for n in range(0, 3))
    else:
        seqs = (tuple(job['prefix']) + rest for n in range(1, job['L'] - 1)
                for rest in itertools.product(range(9), repeat=n))
    n_nt = 0
    for seq in seqs:
        seq = list(seq)
        out = icao.significant_cloud(seq)
        exp = model(seq)
        st_.cases += 1
        st_.evaluations += 1
        if len(out) != len(seq) or [bool(x) for x in out] != exp:
            res = Result()
            res.fail('flags', 'flags!=1-3-5 fold', f'oktas={seq} got={out} expected={exp}')
            st_.cases -= 1
            st_.evaluations -= 1
            ctx.record({'oktas': seq}, res)
            continue
        # prefix stability follows from model equality on all shorter sequences (all enumerated)
        if nontrivial(seq):
            n_nt += 1
            if len(st_.samples) < 1 and len(seq) == job['L']:
                st_.samples.append({'oktas': seq, 'flags': [bool(x) for x in out]})
    # the same enumeration once more through ONE list object edited in place (slice assignment) between calls
    if job['prefix'] is not None and job['L'] >= 4:
        work = []
        for n in range(1, 3):
            for rest in itertools.product(range(9), repeat=n):
                work[:] = list(job['prefix']) + list(rest)
                out = icao.significant_cloud(work)
                st_.evaluations += 1
                if [bool(x) for x in out] != model(work):
                    res = Result()
                    res.fail('history', 'flags of a list edited in place between two calls differ from the rule',
                             f'list={list(work)} got={out} expected={model(work)}')
                    ctx.record({'oktas': list(work)}, res)
                    break
    st_.distinct_extra += n_nt
    st_.labels['enumerated'] += st_.cases
    if job['prefix'] == [8, 8]:
        st_.exhaustive.append(f'all okta sequences over 0..8 of length 0..{job["L"]}')
