"""C02 - lowest layer and ceiling are never suppressed; NCD/NSC mean what they say."""
import math

from vlib import observe, oracles, strategies as S
from vlib.runner import Result

ID = 'C02'
RULE = ('Cases = generated scene (exact_counts 50% with 1-5 flat layers of exact hit counts so FEW/SCT layers '
        'consume slots below BKN/OVC ones; layered; merge_chain; degenerate; ref_window) x MSA (None / 0 / exactly '
        'a hit / between / above) x MSA_HIT_BUFFER x MAX_HITS_OKTA0 x MAX_HOLES_OKTA8. Oracle, for each of the '
        'three levels: if a row with okta >= 1 and base < MSA exists then the message is a list of groups, the '
        'first group is the code of the lowest such row, the code of the lowest row with okta >= 5 and base < MSA '
        'is among the groups, and every group is the code of a table row; otherwise the message is NSC when a row '
        'with okta >= 1 sits at/above the MSA or the number of input hits above MSA+buffer (counted by the '
        'harness from the input) exceeds MAX_HITS_OKTA0, else NCD. The chunk flag must equal that count test. '
        'The full message model (1-3-5 fold) is also evaluated; its agreement rate is reported, not enforced. '
        'Non-trivial = a row with okta >= 5 sits third or later among the rows with okta >= 1, or the result is '
        'NCD/NSC with >= 1 table row, or the MSA lies within the range of the table bases. Distinct by '
        '(per-level okta tuple, MSA-position pattern, n_above vs MAX_HITS_OKTA0, message).')
ASSUMPTIONS = ['the cropped-hit count is computed by the harness from the input rows (crop model), not from '
               'the chunk flag', 'crashes of run() are left to C08']
BUDGET = {'quick': 900, 'thorough': 40000}
CORPUS = 'pipeline'
COVER_TABLE = ('cells = (okta-class tuple of the layers table with <= 4 rows: 781 tuples) x (pattern of rows at/above the '
               'MSA) x (number of cropped hits > MAX_HITS_OKTA0)')
WEIGHTS = {'exact_counts': 10, 'layered': 4, 'merge_chain': 2, 'degenerate': 2, 'ref_window': 2}


def strategy(tier):
    return S.pipeline_case(WEIGHTS, vary=('msa', 'okta', 'sep'), p_default_prms=0.1, anomalies=True,
                           anomaly_negative=False)


def jobs(tier, seed):
    from vlib.props import c01
    return c01.jobs(tier, seed, kmax={'quick': 2, 'thorough': 4}[tier])


def run_job(job, ctx):
    import itertools
    from vlib.props import c01
    k = job['k']
    if job['what'] == 'oktas':
        for rest in itertools.product(range(9), repeat=k - 1):
            for msa in (None, 1000 + 2000 * (k - 1)):
                case = c01.enum_case_oktas((job['first'],) + rest, msa)
                ctx.record(case, check(case))
        if k == 1:
            for msa, buf in ((1000, 0), (1000, 1500), (600, 1500), (None, 1500)):
                case = c01.enum_case_oktas((job['first'],), msa)
                case['prms']['MSA_HIT_BUFFER'] = buf
                case['rows'] = [[r[0], r[1], r[2], -1 if r[3] == 1 else r[3]] for r in case['rows']]
                ctx.record(case, check(case))
        if job['first'] == 8:
            ctx.stats.exhaustive.append(f'all okta value tuples (0..8) of {k} stacked flat layers x MSA None / at the top base')
        return
    for rest in itertools.product(range(5), repeat=k - 1):
        classes = (job['first'],) + rest
        for msa in c01.enum_msas(k):
            for extra_high in (0, 3, 'multi'):
                case = c01.enum_case(classes, msa)
                # optional cirrus far above every MSA+buffer: drives the high-cloud flag (3 > MAX_HITS_OKTA0 = 2);
                # 'multi' = two measurements with two high hits each (4 hits, but only 2 measurements)
                add = [(i, 30000.0) for i in range(extra_high)] if extra_high != 'multi' else \
                    [(0, 30000.0), (0, 31000.0), (1, 30000.0), (1, 31000.0)]
                for i, h in add:
                    case['rows'].append(['a', -900.0 + 30.0 * i, h, len([r for r in case['rows']
                                                                     if r[1] == -900.0 + 30.0 * i and r[3] > 0]) + 1])
                # a measurement cannot hold a non-detection and a hit: drop the non-detection rows that got company
                keep = []
                for r in case['rows']:
                    if r[3] == 0 and any(q[1] == r[1] and q[3] != 0 for q in case['rows']):
                        continue
                    keep.append(r)
                case['rows'] = keep
                ctx.record(case, check(case))
    if job['first'] == 4:
        ctx.stats.exhaustive.append(f'all okta-class tuples of {k} stacked flat layers x MSA None / below all / at each base / '
                                    'between / above x {0, 3} hits far above MSA+buffer (MAX_HITS_OKTA0 = 2)')


def check_level(msg, table, msa, n_above, max0, res, which):
    msa_val = math.inf if msa is None else msa
    codes = [r['code'] for r in table]
    below = [r for r in table if r['okta'] >= 1 and r['height_base'] < msa_val]
    detail = (f"msg={msg!r} msa={msa} n_above={n_above} max0={max0} table="
              f"{[(r['code'], r['okta'], r['height_base']) for r in table]}")
    if below:
        if msg in ('NCD', 'NSC'):
            res.fail('suppressed', f'{msg} although a reportable layer exists ({which})', detail)
            return
        groups = msg.split(' ')
        if groups[0] != below[0]['code']:
            res.fail('lowest', f'first group is not the lowest layer below the MSA ({which})', detail)
        ceil = [r for r in below if r['okta'] >= 5]
        if ceil and ceil[0]['code'] not in groups:
            res.fail('ceiling', f'ceiling missing from the message ({which})', detail)
        for g in groups:
            if g not in codes:
                res.fail('listed', f'group is not the code of a listed layer ({which})', detail)
    else:
        cloud = any(r['okta'] >= 1 and r['height_base'] >= msa_val for r in table) or n_above > max0
        exp = 'NSC' if cloud else 'NCD'
        if msg != exp:
            res.fail('ncd-nsc', f'{msg if msg in ("NCD", "NSC") else "groups"} instead of {exp} ({which})',
                     detail)


def check(case):
    res = Result()
    res.labels = [case['cls']]
    try:
        chunk = observe.run_case(case)
        msgs = {w: chunk.metar_msg(w) for w in ('slices', 'groups', 'layers')}
    except Exception as exc:
        res.skipped = 'run crashed: ' + observe.crash_sig(exc)
        return res
    prms = case['prms']
    msa = oracles.prm(prms, 'MSA')
    max0 = oracles.prm(prms, 'MAX_HITS_OKTA0')
    _, n_above, flag = oracles.crop_model(case['rows'], prms)
    if bool(chunk.clouds_above_msa_buffer) != flag:
        res.fail('flag', 'high-cloud flag differs from the count of input hits above the limit',
                 f'flag={chunk.clouds_above_msa_buffer} n_above={n_above} max0={max0}')
    msa_val = math.inf if msa is None else msa
    key = [n_above > max0, n_above == max0]
    for which in ('slices', 'groups', 'layers'):
        table = observe.table_rows(getattr(chunk, which))
        msg = msgs[which]
        check_level(msg, table, msa, n_above, max0, res, which)
        model = oracles.message_model(table, msa, n_above, max0)
        res.labels.append('model-agrees' if model == msg else 'model-DISAGREES')
        sig = [r for r in table if r['okta'] >= 1]
        late_ceiling = any(r['okta'] >= 5 for r in sig[2:])
        inrange = bool(table) and msa is not None and \
            table[0]['height_base'] <= msa <= table[-1]['height_base']
        if late_ceiling or (msg in ('NCD', 'NSC') and table) or inrange:
            res.nontrivial = True
        if which == 'layers':
            if len(table) <= 4:
                from vlib.props.c01 import okta_class
                res.cover.append(f"{tuple(okta_class(r['okta']) for r in table)}|"
                                 f"{tuple(int(r['height_base'] >= msa_val) for r in table)}|{int(n_above > max0)}")
            if late_ceiling:
                res.labels.append('late-ceiling')
            if inrange:
                res.labels.append('msa-in-range')
            res.labels.append('msg:' + (msg if msg in ('NCD', 'NSC') else 'groups'))
            if abs(n_above - max0) <= 1 and msa is not None:
                res.labels.append('n_above~max0')
            res.sample = {'cls': case['cls'], 'prms': prms, 'n_above': n_above, 'msg': msg,
                          'layers': [(r['code'], r['okta'], r['height_base']) for r in table]}
        key.append([tuple(r['okta'] for r in table),
                    tuple(r['height_base'] >= msa_val for r in table), msg])
    res.key = key
    return res
