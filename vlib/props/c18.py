"""C18 - WMO conversions: okta binning, okta abbreviations and height flooring."""
import math
from fractions import Fraction

import numpy as np
from hypothesis import strategies as st

from vlib import oracles
from vlib.runner import Result

ID = 'C18'
RULE = ('perc2okta: every (n, m) with 0 <= n <= m <= M (quick M=3000, thorough M=8000) through one array call per m '
        '(percentages n/m*100 as the pipeline computes them) and scalar calls (int / float / np.float64) on a '
        'sample, against the exact-integer coverage model (both neighbours accepted at exact x.5 ties), monotone in n, '
        '0 iff n=0, 8 iff n=m; the float64 argument array is left unmodified and a second look-up on the same array (and on a reversed view) gives the same oktas; out-of-range scalars and arrays must raise AmpycloudError. okta2code: all integers '
        '-2..11 against the explicit table, non-integer types (float, str, None, np.float64) must raise AmpycloudError. '
        'height2code: a 0.25 ft (thorough 0.05 ft) grid over [0, 1e5) plus the floating-point neighbours of every '
        'multiple of 100 up to 1e4 and of 1000 above, plus Hypothesis floats: three digits, equal to the exact floor '
        '(rational arithmetic), non-decreasing along the grid, coded height <= input. All enumerated cases are distinct '
        'by construction; non-trivial = n within one count of an okta bin edge (for perc2okta), every integer/type '
        'probe of okta2code, and heights within 1 ft of a coding boundary.')
ASSUMPTIONS = ['bool and numpy integer scalars are left out (the statement does not decide whether they count as integers)']
BUDGET = {'quick': 3000, 'thorough': 40000}
HYP_SHRINK = True
MMAX = {'quick': 3000, 'thorough': 8000}
GRID = {'quick': 4, 'thorough': 20}   # points per ft


def hcode_model(h):
    fr = Fraction(h)
    if h <= 10000:
        return f'{math.floor(fr / 100):03d}'
    return f'{math.floor(fr / 1000) * 10:03d}'


def check_height(h, res):
    from ampycloud import wmo
    out = wmo.height2code(h)
    exp = hcode_model(h)
    if out != exp:
        res.fail('height2code', 'height2code is not the three-digit floor', f'h={h!r} got={out!r} expected={exp!r}')
    elif not (len(out) == 3 and out.isdigit() and int(out) * 100 <= h):
        res.fail('height2code', 'coded height malformed or above the input', f'h={h!r} got={out!r}')


def check_okta2code(val, res):
    from ampycloud import wmo
    from ampycloud.errors import AmpycloudError
    table = {0: 'NCD', 1: 'FEW', 2: 'FEW', 3: 'SCT', 4: 'SCT', 5: 'BKN', 6: 'BKN', 7: 'BKN', 8: 'OVC', 9: None}
    try:
        out = wmo.okta2code(val)
        raised = None
    except AmpycloudError:
        raised = 'AmpycloudError'
    except Exception as exc:
        raised = type(exc).__name__
    legal = type(val) is int and val in table
    if legal:
        if raised or out != table[val]:
            res.fail('okta2code', 'okta2code differs from the table', f'val={val!r} got={raised or out!r}')
    elif raised != 'AmpycloudError':
        res.fail('okta2code', 'okta2code does not refuse an illegal value with AmpycloudError',
                 f'val={val!r} ({type(val).__name__}) -> {raised or out!r}')


def check_perc_scalar(n, m, kind, res):
    from ampycloud import wmo
    val = n / m * 100
    if kind == 'int' and val == int(val):
        val = int(val)
    elif kind == 'np':
        val = np.float64(val)
    out = wmo.perc2okta(val)
    got = int(np.asarray(out).reshape(-1)[0])
    if got not in oracles.okta_candidates(n, m):
        res.fail('perc2okta', 'perc2okta outside the coverage model (scalar)', f'n={n} m={m} val={val!r} got={got}')


def check_perc_refusal(val, res):
    from ampycloud import wmo
    from ampycloud.errors import AmpycloudError
    try:
        out = wmo.perc2okta(val)
        res.fail('perc2okta', 'perc2okta accepts a value outside [0, 100]', f'val={val!r} -> {out!r}')
    except AmpycloudError:
        pass
    except Exception as exc:
        res.fail('perc2okta', 'perc2okta refuses with another exception type', f'val={val!r} {exc!r}')


def check(case):
    res = Result()
    fn = case['fn']
    res.labels = [fn]
    if fn == 'height2code':
        h = float(case['h'])
        check_height(h, res)
        step = 100 if h <= 10000 else 1000
        res.nontrivial = min(h % step, step - h % step) <= 1
    elif fn == 'okta2code':
        val = case['val']
        if case.get('type') == 'float':
            val = float(val)
        elif case.get('type') == 'str':
            val = str(val)
        elif case.get('type') == 'none':
            val = None
        elif case.get('type') == 'np.float64':
            val = np.float64(val)
        check_okta2code(val, res)
        res.nontrivial = True
    elif fn == 'perc2okta':
        check_perc_scalar(case['n'], case['m'], case.get('kind', 'float'), res)
        res.nontrivial = True
    elif fn == 'perc2okta-alias':
        from ampycloud import wmo
        m = case['m']
        arg = np.arange(0, m + 1) / m * 100
        keep = arg.copy()
        out = wmo.perc2okta(arg)
        again = wmo.perc2okta(arg)
        if not np.array_equal(arg, keep) or not np.array_equal(again, out):
            res.fail('perc2okta', 'perc2okta modifies its argument / answers differently the second time',
                     f'm={m}: argument changed={not np.array_equal(arg, keep)}')
        res.nontrivial = True
    elif fn == 'perc2okta-refuse':
        val = case['val']
        check_perc_refusal(np.array(val) if isinstance(val, list) else val, res)
        res.nontrivial = True
    res.sample = case
    return res


def strategy(tier):
    heights = st.one_of(
        st.floats(0, 99999.999, allow_nan=False),
        st.integers(0, 999).flatmap(lambda k: st.sampled_from(
            [k * 100.0, math.nextafter(k * 100.0, -1), math.nextafter(k * 100.0, 1e9), k * 100 + 99.99999]))
    ).map(lambda h: {'fn': 'height2code', 'h': max(h, 0.0)})
    percs = st.integers(1, 20000).flatmap(lambda m: st.integers(0, m).map(
        lambda n: {'fn': 'perc2okta', 'n': n, 'm': m, 'kind': ['float', 'int', 'np'][(n + m) % 3]}))
    refuse = st.sampled_from([-1e-9, -1, 100.0000001, 101, 1e9, [0, 50, 100.1], [-0.1, 3]]).map(
        lambda v: {'fn': 'perc2okta-refuse', 'val': v})
    oktas = st.tuples(st.integers(-2, 11), st.sampled_from(['int', 'float', 'str', 'none', 'np.float64'])).map(
        lambda t: {'fn': 'okta2code', 'val': t[0], 'type': t[1]})
    return st.one_of(heights, heights, percs, percs, refuse, oktas)


def jobs(tier, seed):
    M = MMAX[tier]
    out = [{'name': 'okta2code', 'what': 'okta2code'}]
    nchunk = 32
    for i in range(nchunk):
        out.append({'name': f'perc-{i}', 'what': 'perc', 'ms': list(range(1 + i, M + 1, nchunk)), 'M': M})
    for i in range(20):
        out.append({'name': f'height-{i}', 'what': 'height', 'lo': i * 5000, 'hi': (i + 1) * 5000,
                    'per_ft': GRID[tier]})
    return out


def run_job(job, ctx):
    from ampycloud import wmo
    stt = ctx.stats
    if job['what'] == 'okta2code':
        for val in range(-2, 12):
            for typ in ('int', 'float', 'str', 'none', 'np.float64'):
                case = {'fn': 'okta2code', 'val': val, 'type': typ}
                ctx.record(case, check(case))
        for val in (-1e-9, -1, 100.0000001, 101, 1e9, [0, 50, 100.1], [-0.1, 3]):
            case = {'fn': 'perc2okta-refuse', 'val': val}
            ctx.record(case, check(case))
        stt.exhaustive.append('okta2code on all integers -2..11 x {int, float, str, None, np.float64}')
        return
    if job['what'] == 'perc':
        n_nt = 0
        for m in job['ms']:
            ns = np.arange(0, m + 1)
            arg = ns / m * 100
            keep = arg.copy()
            out = wmo.perc2okta(arg)
            if m % 7 == 0:
                # history / aliasing: the caller's array is left alone, and a second look-up on the very same
                # array object (and on a reversed view of it) gives the same oktas
                again = wmo.perc2okta(arg)
                rev = wmo.perc2okta(arg[::-1])
                if not np.array_equal(arg, keep) or not np.array_equal(again, out) or \
                        not np.array_equal(rev[::-1], out):
                    res = Result()
                    res.fail('perc2okta', 'perc2okta modifies its argument / answers differently the second time',
                             f'm={m}: argument changed={not np.array_equal(arg, keep)}')
                    ctx.record({'fn': 'perc2okta-alias', 'm': m}, res)
            stt.cases += m + 1
            stt.evaluations += 1
            outl = out.tolist()
            bad = None
            if len(outl) != m + 1:
                bad = (0, 'length')
            prev = -1
            cands_prev = None
            for n in range(m + 1):
                cands = oracles.okta_candidates(n, m)
                if outl[n] not in cands:
                    bad = (n, f'got {outl[n]} allowed {cands}')
                    break
                if outl[n] < prev:
                    bad = (n, f'not monotone: {prev} -> {outl[n]}')
                    break
                prev = outl[n]
                if cands_prev is not None and cands != cands_prev:
                    n_nt += 2 if n > 1 else 1
                cands_prev = cands
            if bad:
                res = Result()
                res.fail('perc2okta', 'perc2okta outside the coverage model (array)', f'm={m} n={bad[0]} {bad[1]}')
                stt.cases -= 1
                case = {'fn': 'perc2okta', 'n': bad[0], 'm': m}
                ctx.record(case, res)
            elif m % 97 == 0:
                # scalar calls on a sample of n
                for n in range(0, m + 1, max(1, m // 23)):
                    case = {'fn': 'perc2okta', 'n': n, 'm': m, 'kind': ['float', 'int', 'np'][n % 3]}
                    ctx.record(case, check(case))
        stt.distinct_extra += n_nt
        stt.labels['perc2okta(enumerated n,m)'] += sum(m + 1 for m in job['ms'])
        if job['name'] == 'perc-0':
            stt.exhaustive.append(f"perc2okta on all n/m*100, 0 <= n <= m <= {job['M']} (array calls)")
        return
    # heights
    per = job['per_ft']
    prev_code = None
    n_nt = 0
    k = job['lo'] * per
    pts = []
    for i in range(job['lo'] * per, job['hi'] * per):
        pts.append(i / per)
    for b in range(job['lo'], job['hi'] + 1, 100):
        if b <= 10000 or b % 1000 == 0:
            for h in (math.nextafter(float(b), -1.0), float(b), math.nextafter(float(b), 1e9)):
                if 0 <= h < 100000 and job['lo'] <= h < job['hi'] + 1:
                    pts.append(h)
    pts = sorted(set(pts))
    for h in pts:
        out = wmo.height2code(h)
        stt.cases += 1
        stt.evaluations += 1
        exp = hcode_model(h)
        if out != exp or (prev_code is not None and int(out) < prev_code):
            res = Result()
            res.fail('height2code', 'height2code is not the three-digit floor' if out != exp
                     else 'height2code decreases', f'h={h!r} got={out!r} expected={exp!r}')
            stt.cases -= 1
            stt.evaluations -= 1
            ctx.record({'fn': 'height2code', 'h': h}, res)
        else:
            prev_code = int(out)
        step = 100 if h <= 10000 else 1000
        if min(h % step, step - h % step) <= 1:
            n_nt += 1
    stt.distinct_extra += n_nt
    stt.labels['height2code(grid)'] += len(pts)
    if job['lo'] == 0:
        stt.exhaustive.append(f'height2code on a 1/{per} ft grid over [0, 1e5) plus float neighbours of all coding '
                              'boundaries')
