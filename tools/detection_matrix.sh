#!/bin/bash
# tools/detection_matrix.sh  -- every listed mutant and every archived seeded change against its property's quick
# check (scratch copies under /tmp, removed afterwards). Writes detection_matrix.txt (committed as a record).
cd "$(dirname "$0")/.." || exit 2
OUT=detection_matrix.txt
{ echo "# mutants (vlib/mutants/mutants.json)"; tools/selftest.py 2>&1 | grep -E "CAUGHT|MISSED|HARNESS|ANCHOR|APPLY" | cut -c1-160
  echo "# seeded changes (seeded/*/patch.diff)"
  for d in seeded/*/; do n=$(basename $d); p=${n:0:3}; f=$d/patch.diff; r=$(ls $d/patch_rebased_on_*.diff 2>/dev/null | tail -1); [ -n "$r" ] && f=$r; tools/selftest.py --patch $f -p $p 2>&1 | grep -E "CAUGHT|MISSED|HARNESS|APPLY" | sed "s/^SEED */$n /; s/^$n */$n /" | cut -c1-160; done
} > $OUT 2>&1
grep -c CAUGHT $OUT; grep -E "MISSED|HARNESS|ANCHOR|APPLY" $OUT
