#!/usr/bin/env python3
"""python3-vt tools/validate.py : validates MANIFEST.json and evidence/*.json against the schemas."""
import json, glob, sys, jsonschema
ok = True
def val(path, schema):
    global ok
    try:
        jsonschema.validate(json.load(open(path)), json.load(open(schema)))
        print('valid  ', path)
    except Exception as e:
        ok = False; print('INVALID', path, str(e)[:300])
val('/verif/MANIFEST.json', '/root/.vp/MANIFEST.schema.json')
for p in sorted(glob.glob('/verif/evidence/*.json')):
    val(p, '/root/.vp/EVIDENCE.schema.json')
sys.exit(0 if ok else 1)
