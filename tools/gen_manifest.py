#!/usr/bin/env python3
"""Regenerates MANIFEST.json from the table below (kept next to the code so it stays current)."""
import json, os

HERE = os.path.dirname(os.path.dirname(os.path.abspath(__file__)))

# id -> (technique, level text, level note, design ref)
CHECKS = {
 'C17': ('exhaustive enumeration + Hypothesis lists against an independent 1-3-5 fold (reference model)',
         'Every okta sequence over 0..8 up to length 5 (quick) / 7 (thorough) is enumerated and compared with an '
         'independent fold, so the property is decided completely for that bound; longer sequences (<=60) are sampled '
         'with Hypothesis and shrunk on failure. Exploration is the right level: the function is pure and tiny, the '
         'bounded domain is finite, and the rule has no state beyond a counter <=3 and a threshold.',
         'Trusts the 12-line reference fold in vlib/props/c17.py and that oktas are ints 0..8.', '5/C17'),
}

PENDING = {}

def main():
    props = [json.loads(l) for l in open(os.path.join(HERE, 'properties.jsonl'))]
    checks, na = [], []
    for p in props:
        pid = p['id']
        if pid in CHECKS:
            tech, text, note, ref = CHECKS[pid]
            checks.append({
                'property_id': pid,
                'quick_cmd': f'./check {pid} --tier quick',
                'thorough_cmd': f'./check {pid} --tier thorough',
                'evidence_file': f'/verif/evidence/{pid}.json',
                'replay_cmd_template': f'./check {pid} --replay {{path}}',
                'engine': 'vlib',
                'level_claimed': {'category': 'exploration', 'text': text, 'design_ref': f'DESIGN.md section {ref}'},
                'level_note': note,
                'technique': tech,
            })
        else:
            na.append({'property_id': pid, 'reason': PENDING.get(pid, 'check under construction in this session; not yet claimed')})
    man = {
        'version': 1,
        'setup_cmd': './setup.sh',
        'hooks': {
            'guard': 'AMPYCLOUD_VERIF',
            'enable': 'none needed: ampycloud is pure Python and every observation point is public; checks import /repo/src directly (AMPYCLOUD_VERIF=1 is exported by ./check but no source line reads it)',
            'baseline_off_cmd': 'cd /repo && /venv/bin/python -m pytest -ra -q -p no:cacheprovider --timeout=900',
            'source_commits': [],
            'add_only': True,
        },
        'engines': [
            {'name': 'vlib', 'path': 'vlib/runner.py', 'serves_properties': sorted(CHECKS),
             'kind_free_text': 'Hypothesis 6.168 (seeded, database=None) sharded over 16 processes + itertools enumeration of finite sub-domains; collect-bucket-minimise failure handling; replay files bypass Hypothesis'},
        ],
        'checks': checks,
        'notes': 'All checks: ./check <ID> [--tier quick|thorough] [--replay FILE]; VERIF_SEED selects the Hypothesis seeds; exit 2 = harness error (never a VIOLATION). Known findings: known_findings.json.',
        'not_applicable': na,
    }
    with open(os.path.join(HERE, 'MANIFEST.json'), 'w') as f:
        json.dump(man, f, indent=1)
    print('claimed:', len(checks), 'not claimed:', len(na))

if __name__ == '__main__':
    main()
