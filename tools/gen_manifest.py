#!/usr/bin/env python3
"""Regenerates MANIFEST.json from the table below (kept next to the code so it stays current)."""
import json, os

HERE = os.path.dirname(os.path.dirname(os.path.abspath(__file__)))

# id -> (technique, level text, level note, design ref)
CHECKS = {
 'C09': ('Hypothesis cases (plus rare-branch and RNG-sensitive corpus replay) x prior RNG states incl. cached Gaussian x intermediate-op histories; invariant on numpy.random.get_state(); digest round trip in-process; differential re-evaluation in fresh interpreters with other PYTHONHASHSEED values',
         'Every ampycloud call in every history is bracketed by a bit-exact comparison of the global RNG state; each case is evaluated twice in-process around a drawn history and three more times in fresh interpreters (hash seeds 1, 4242, random; different orders) and all snapshot digests must agree.',
         'Thread counts pinned to 1; one machine / one BLAS.', '5/C09'),
 'C11': ('Hypothesis RuleBasedStateMachine over build / run / stage / edit-global / edit-snapshot / reset ops against deep-copy models of every caller object, the global dict and every chunk snapshot',
         'Hundreds of histories (<= 25 ops) per run with an invariant after every op: caller frames and dicts, the global dict and every live chunk snapshot must equal their models. Shrunk histories are saved as op lists and replayed through the same interpreter without Hypothesis.',
         'List-value aliasing between caller dict and snapshot is deliberately not asserted (not claimed by the statement).', '5/C11'),
 'C12': ('differential testing of the three parameter routes (per-call, global dict, YAML/set_prms) on generated assignments over arbitrary prior global contents; poisoned-global metamorphic run; reset_prms against an independent read of the packaged YAML',
         'For each generated (scene, G0, P) the three routes must give identical chunk.prms, tables, data and messages; the per-call run must survive "POISON" sentinels in every global leaf it overrides; unknown keys must warn and add nothing; reset_prms (all / str / list) must restore exactly the packaged defaults, twice, with in-place edits in between.',
         'Packaged defaults are read by the harness own YAML load.', '5/C12'),
 'C13': ('exhaustive stage interleavings of 2 chunks (70 per drawn pair), sampled/enumerated interleavings of 3 chunks; under a harness-owned sys.monitoring scheduler at ampycloud source-line granularity: PCT-style randomised pre-emption, systematic pre-emption-bound-1 and rendezvous schedules over every distinct line; oracle = isolated sequential reference',
         'The schedule is owned by the harness (baton passing on LINE events inside ampycloud code only), so a failing schedule is a replayable (case, switch vector). Stage-level interleavings are enumerated completely per drawn pair; line-level schedules are drawn by Hypothesis (1-40 switch points).',
         'Line granularity inside ampycloud only; no races inside C extensions or under real parallelism.', '5/C13'),
 'C20': ('Hypothesis chunks (incl. > 10 instruments, > 8 sets, no hits, VV) x plot-argument histories with side-effect oracles (exception, chunk snapshot, rcParams, open figures, directory listing)',
         'Each case renders 1-4 plots in one process into a fresh temporary directory; after each plot the chunk snapshot, dict(rcParams), the open-figure list and the directory listing are compared with their expected values.',
         'Base style only; benign text arguments; Agg backend.', '5/C20'),
 'C07': ('metamorphic pairs (heights above the limit redrawn / replaced by non-detections) on Hypothesis scenes with the MSA placed on and around hit heights; crop reference model',
         'Two transformed twins per case are run and compared bit-exactly with the original (tables; plus message and flag for the redraw twin); the flag and the kept rows are checked against an input-side crop model. Exploration: unbounded inputs.',
         'Trusts the crop model and the bit-exact snapshot in vlib/observe.py.', '5/C07'),
 'C10': ('metamorphic pairs: index relabelling (incl. non-unique), column permutation, extra columns, exact dtype re-encodings, against the plain frame, bit-exact',
         'Each generated case is run on the canonical frame and on a drawn equivalent variant; tables, messages, flag and positional per-hit assignments must be identical and the variant must not raise.',
         'Only value-preserving dtype variants are generated (exact representability is tested before use).', '5/C10'),
 'C14': ('exhaustive DFS over all call sequences to depth 4/5 on three/four data sets + Hypothesis op sequences on generated scenes, against a stage model (reference model of the protocol)',
         'The call tree (10 ops) is enumerated completely to the stated depth on data sets with merged groups, a split group and no hits; longer sequences on generated scenes are drawn by Hypothesis and shrunk. Every call is compared with the model verdict and the canonical stage snapshots.',
         'Stage-relative comparison of the annotation columns (slices.isolated, groups.ncomp); deep copies in the DFS.', '5/C14'),
 'C15': ('Hypothesis defect injection over valid frames against a pure-Python screening model, both directions, with Hypothesis shrinking; plus coverage-guided fuzzing (atheris/libFuzzer through fuzz_one_input) of the same target',
         'Thousands of frames per run with combinations of the documented defects, near-misses, coercible dtype variants and layouts; accept/refuse must equal the model verdict, results are compared value by value, idempotence and argument immutability are checked.',
         'Trusts the screening model in vlib/oracles.py (30 lines).', '5/C15'),
 'C16': ('metamorphic pairs under drawn bijective renamings (incl. order-reversing and confusable names) applied to frame and exclusion list, bit-exact',
         'Original and renamed run are compared on the full snapshot with names mapped back.', 'Trusts the snapshot.', '5/C16'),
 'C18': ('exhaustive enumeration of (n, m) pairs, okta integers/types and a fine height grid with float neighbours of every coding boundary, against exact integer/rational models; Hypothesis for free floats',
         'The bounded domains named in the statement are enumerated completely (n <= m <= 3000 quick / 8000 thorough; 0.25 / 0.05 ft grid), so within those bounds the property is decided.',
         'Trusts the exact-arithmetic models; accepts both neighbours at exact x.5 ties.', '5/C18'),
 'C19': ('Hypothesis arrays x modes x kwargs with algebraic oracles (monotonicity, do/undo round trip, range, continuity, NaN blindness), Hypothesis shrinking',
         'Thousands of arrays per run across the three scalings, with kwargs derived by the same helpers the plots use and a share routed through CeiloChunk.data_rescaled.',
         'Tolerances as stated in RULE (1e-9 relative families).', '5/C19'),
 'C01': ('Hypothesis scene/parameter generation + validity predicate on the message string against the tables',
         'Thousands of generated (hit table, MSA/buffer/okta/separation) cases per run, every okta class and MSA position (incl. a base exactly at the MSA) reached by construction through exact-count scenes; each message at all three levels is checked against a format/ordering/ICAO-rank/selection predicate resolved against the tables. Exploration: the input space is unbounded and the pipeline contains third-party numerics, so absence of violations is evidence, not proof.',
         'Trusts the regex/predicate in vlib/props/c01.py; tables are used only to resolve which layer a group stands for.', '5/C01'),
 'C02': ('Hypothesis scene/parameter generation + clause-wise oracle with the cropped-hit count recomputed from the input (reference crop model)',
         'Generated tables of up to five layers over all okta classes and MSA positions; lowest-layer, ceiling, listed-layer, NCD and NSC clauses evaluated per level; the high-cloud decision uses the harness own count of input hits above MSA+buffer, not the chunk flag. Exploration level for the same reason as C01.',
         'Trusts the crop model (vlib/oracles.py) and the clause reading given in RULE; the stricter full message model is reported, not enforced.', '5/C02'),
 'C03': ('Hypothesis scenes + exhaustive (n, N) grid against an exact rational coverage model',
         'Every table row of every generated case is recounted from chunk.data (distinct (ceilo, dt)), and the okta is compared with an exact-arithmetic model; the (count, total, buffers) grid for one flat layer is enumerated completely up to N=12 (quick) / 40 (thorough), including monotonicity along each line.',
         'Trusts the coverage model; accepts both neighbours at exact x.5 okta ties (the statement says "nearest").', '5/C03'),
 'C04': ('Hypothesis scenes x base-height parameters against an independent percentile / look-back / exclusion model with tie intervals; exhaustive enumeration of calc_base_height over (n, look-back) and of pipeline runs at every (n, p) with n*p a multiple of 100; corpus replay',
         'Each base height, statistic and code of each table row is recomputed from the member hits with an own percentile routine over the look-back selection (interval only where dt ties straddle the cut), including float-neighbour heights around every coding boundary.',
         'Trusts vlib/oracles.py base_interval/percentile_linear; tolerances 1e-9 relative.', '5/C04'),
 'C05': ('Hypothesis scenes incl. degenerate, multi-split, index-layout variants, anomalies and >=102-slice constructions + conservation/partition invariants against the crop model; corpus replay',
         'Per-hit ids, table id sets, counts, layer-in-group nesting and ncomp bookkeeping are checked on every case; hits are compared as a multiset with the crop model applied to the input. Dedicated constructions reach id-collision territory (>= 102 slices under a split group).',
         'Trusts the crop model and the invariants as written in vlib/props/c05.py.', '5/C05'),
 'C06': ('Hypothesis merge-chain / limit-crossing / split / tie-split scenes x separation, percentile, look-back, exclusion, row order; metamorphic no-merge twin for non-triviality; harness-side spy for the no-re-merge precondition; directed follow-up run with the separation placed between decided and reported distance',
         'Group clause checked on every adjacent pair of every case; layer clause on every split group whose raw mixture count equals its final count (observed by wrapping layer.best_gmm / ncomp_from_gmm at run time). A twin run without merging measures how often merging really happened.',
         'Trusts the spy alignment (cases where it cannot be aligned are skipped and counted) and bin lookup in vlib/oracles.py.', '5/C06'),
 'C08': ('Hypothesis generation over all scene classes, anomalies, index layouts and all parameter leaves + exception bucketing; refusal domain checked for AmpycloudError-only; plus coverage-guided fuzzing (atheris/libFuzzer through fuzz_one_input, ampycloud instrumented) of the same target',
         'Any exception on the valid domain is a failure, bucketed by (type, innermost ampycloud frame) so distinct crashes are reported separately; refusals (illegal frames, out-of-order calls) must raise AmpycloudError and nothing else. "Never crashes" can only be searched, not established.',
         'Parameter domains as listed in DESIGN.md section 3; parameter-value refusals are not enforced.', '5/C08'),
 'C17': ('exhaustive enumeration + Hypothesis lists against an independent 1-3-5 fold (reference model)',
         'Every okta sequence over 0..8 up to length 5 (quick) / 7 (thorough) is enumerated and compared with an '
         'independent fold, so the property is decided completely for that bound; longer sequences (<=60) are sampled '
         'with Hypothesis and shrunk on failure. Exploration is the right level: the function is pure and tiny, the '
         'bounded domain is finite, and the rule has no state beyond a counter <=3 and a threshold.',
         'Trusts the 12-line reference fold in vlib/props/c17.py and that oktas are ints 0..8.', '5/C17'),
}

PENDING = {}

def main():
    props = [json.loads(l) for l in open(os.path.join(HERE, 'properties.jsonl'))]
    checks, na = [], []
    for p in props:
        pid = p['id']
        if pid in CHECKS:
            tech, text, note, ref = CHECKS[pid]
            checks.append({
                'property_id': pid,
                'quick_cmd': f'./check {pid} --tier quick',
                'thorough_cmd': f'./check {pid} --tier thorough',
                'evidence_file': f'/verif/evidence/{pid}.json',
                'replay_cmd_template': f'./check {pid} --replay {{path}}',
                'engine': 'vlib',
                'level_claimed': {'category': 'exploration', 'text': text, 'design_ref': f'DESIGN.md section {ref}'},
                'level_note': note,
                'technique': tech,
            })
        else:
            na.append({'property_id': pid, 'reason': PENDING.get(pid, 'check under construction in this session; not yet claimed')})
    man = {
        'version': 1,
        'setup_cmd': './setup.sh',
        'hooks': {
            'guard': 'AMPYCLOUD_VERIF',
            'enable': 'none needed: ampycloud is pure Python and every observation point is public; checks import /repo/src directly (AMPYCLOUD_VERIF=1 is exported by ./check but no source line reads it)',
            'baseline_off_cmd': 'cd /repo && /venv/bin/python -m pytest -ra -q -p no:cacheprovider --timeout=900',
            'source_commits': [],
            'add_only': True,
        },
        'engines': [
            {'name': 'atheris', 'path': 'vlib/fuzz_atheris.py', 'serves_properties': ['C08', 'C15'],
             'kind_free_text': 'atheris 3.1 / libFuzzer (installed by setup.sh into /verif/.deps from the offline wheelhouse) driving the property\'s Hypothesis strategy through fuzz_one_input with ampycloud instrumented for branch coverage; the oracle (check(case)) sits inside the target; skipped with a note in the evidence if atheris cannot be imported'},
            {'name': 'vlib', 'path': 'vlib/runner.py', 'serves_properties': sorted(CHECKS),
             'kind_free_text': 'Hypothesis 6.168 (seeded, database=None) sharded over 16 processes + itertools enumeration of finite sub-domains; collect-bucket-minimise failure handling; replay files bypass Hypothesis'},
        ],
        'checks': checks,
        'notes': 'All checks: ./check <ID> [--tier quick|thorough] [--replay FILE]; VERIF_SEED selects the Hypothesis seeds; exit 2 = harness error (never a VIOLATION). Known findings: known_findings.json.',
        'not_applicable': na,
    }
    with open(os.path.join(HERE, 'MANIFEST.json'), 'w') as f:
        json.dump(man, f, indent=1)
    print('claimed:', len(checks), 'not claimed:', len(na))

if __name__ == '__main__':
    main()
