#!/bin/bash
# tools/run_all.sh [quick|thorough]  -- every registered check once, one summary line each
cd "$(dirname "$0")/.." || exit 2
TIER=${1:-quick}; RC=0
for p in C01 C02 C03 C04 C05 C06 C07 C08 C09 C10 C11 C12 C13 C14 C15 C16 C17 C18 C19 C20; do
  out=$(./check $p --tier $TIER 2>&1 | grep -v findfont); rc=$?
  echo "$out" | grep -E "VIOLATION|KNOWN-FINDING|HARNESS-ERROR|failed clause" | head -5
  echo "$out" | tail -1 | sed "s/^/rc=$(echo "$out" | grep -c VIOLATION) /"
  echo "$out" | grep -q -E "VIOLATION|HARNESS-ERROR" && RC=1
done
exit $RC
