#!/venv/bin/python
"""Coverage-guided corpus of rare-branch scenes (development tool; its OUTPUT, corpus/pipeline/*.json, is
committed and replayed by the pipeline checks on every run).

    tools/build_corpus.py [--cases N] [--seed S]

Generates N cases with the broadest pipeline strategy on 16 processes, tracks which ampycloud source lines
(non-plot modules) each case executes (sys.monitoring LINE events, disabled after the first hit of a line
within a case), and keeps a small set-cover of cases that together reach every line reached by any case,
preferring cases that reach lines few other cases reach. Everything random comes from Hypothesis (seeded).
"""
import argparse, collections, json, os, sys
import concurrent.futures as cf
import multiprocessing as mp

HERE = os.path.dirname(os.path.dirname(os.path.abspath(__file__)))
sys.path.insert(0, HERE)
os.environ.setdefault('OMP_NUM_THREADS', '1'); os.environ.setdefault('OPENBLAS_NUM_THREADS', '1')


def worker(args):
    shard, n, seed = args
    from vlib import runner, sched, strategies as S, observe
    runner.setup_path()
    import hypothesis
    from hypothesis import HealthCheck, Phase, given, settings
    mon = sys.monitoring
    tool = 4
    mon.use_tool_id(tool, 'verif-cov')
    hit = set()

    def on_line(code, line):
        hit.add((code.co_filename.split('/ampycloud/')[-1], line))
        return mon.DISABLE
    mon.register_callback(tool, mon.events.LINE, on_line)
    for code in sched.ampycloud_code_objects():
        mon.set_local_events(tool, code, mon.events.LINE)
    weights = {'layered': 8, 'split_candidate': 5, 'merge_chain': 4, 'bundle_stress': 3, 'degenerate': 4,
               'exact_counts': 2, 'ref_window': 3, 'limit_crossing': 2, 'double_split': 3, 'tie_split': 2,
               'heavy_tail': 8}
    strat = S.pipeline_case(weights, anomalies=True, global_modes=True, index_kinds=True, p_default_prms=0.3)
    out = []

    @hypothesis.seed(runner.derive_seed(seed, 'corpus', shard))
    @settings(max_examples=n, database=None, deadline=None, suppress_health_check=list(HealthCheck),
              phases=[Phase.generate])
    @given(strat)
    def run(case):
        hit.clear()
        mon.restart_events()
        try:
            ch = observe.run_case(case)
            for w in ('slices', 'groups', 'layers'):
                ch.metar_msg(w)
        except Exception:
            return
        out.append((case, frozenset(hit)))
    run()
    return out


def main():
    ap = argparse.ArgumentParser()
    ap.add_argument('--cases', type=int, default=8000)
    ap.add_argument('--seed', type=int, default=1)
    ap.add_argument('--max-keep', type=int, default=120)
    a = ap.parse_args()
    nproc = 16
    with cf.ProcessPoolExecutor(nproc, mp_context=mp.get_context('fork')) as pool:
        res = [x for part in pool.map(worker, [(i, a.cases // nproc, a.seed) for i in range(nproc)]) for x in part]
    freq = collections.Counter(l for _, lines in res for l in lines)
    print(f'{len(res)} cases, {len(freq)} distinct lines')
    # greedy set cover, weighting lines by rarity; keep small cases first on ties
    remaining = set(freq)
    kept = []
    cand = sorted(res, key=lambda cl: len(cl[0]['rows']))
    while remaining and len(kept) < a.max_keep:
        best = max(cand, key=lambda cl: sum(1.0 / freq[l] for l in cl[1] if l in remaining))
        gain = [l for l in best[1] if l in remaining]
        if not gain:
            break
        kept.append((best[0], sorted(gain, key=lambda l: freq[l])[:8]))
        remaining -= set(best[1])
    # plus: for each of the 40 rarest lines, up to 3 distinct cases reaching it (smallest first)
    rare = [l for l, c in sorted(freq.items(), key=lambda kv: kv[1])[:40]]
    seen = {json.dumps(k[0], sort_keys=True) for k in kept}
    for l in rare:
        extra = [cl for cl in cand if l in cl[1]][:3]
        for case, _ in extra:
            key = json.dumps(case, sort_keys=True)
            if key not in seen:
                seen.add(key)
                kept.append((case, [l]))
    odir = os.path.join(HERE, 'corpus', 'pipeline')
    os.makedirs(odir, exist_ok=True)
    for f in os.listdir(odir):
        os.remove(os.path.join(odir, f))
    from vlib.runner import digest
    for case, gain in kept:
        with open(os.path.join(odir, digest(case) + '.json'), 'w') as fil:
            json.dump({'origin': 'tools/build_corpus.py (coverage-guided set cover)',
                       'rare_lines': [f'{f}:{n} (reached by {freq[(f, n)]}/{len(res)} cases)' for f, n in gain],
                       'case': case}, fil)
    print(f'kept {len(kept)} cases in {odir}; rarest lines:')
    for l in rare[:15]:
        print('  ', l, freq[l])


if __name__ == '__main__':
    main()
