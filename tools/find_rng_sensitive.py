#!/venv/bin/python
"""Development tool: search (with Hypothesis, seeded) for scenes whose layering depends on the random seed
handed to the mixture model, i.e. scenes on which any leak of random state between chunks becomes visible.
The kept scenes are committed under corpus/rng_sensitive/ and used by C13 (as one chunk of the scheduled
pairs) and replayed by C09.

    tools/find_rng_sensitive.py [--cases N] [--seed S] [--keep K]
"""
import argparse, copy, json, os, sys
import concurrent.futures as cf
import multiprocessing as mp

HERE = os.path.dirname(os.path.dirname(os.path.abspath(__file__)))
sys.path.insert(0, HERE)
os.environ.setdefault('OMP_NUM_THREADS', '1'); os.environ.setdefault('OPENBLAS_NUM_THREADS', '1')


def worker(args):
    shard, n, seed = args
    from vlib import runner, observe, strategies as S
    runner.setup_path()
    import hypothesis, ampycloud
    from ampycloud import dynamic
    from hypothesis import HealthCheck, Phase, given, settings, strategies as st

    @st.composite
    def scene(draw):
        k = draw(st.integers(2, 3))
        n_t = draw(st.integers(60, 140))
        base = draw(st.sampled_from([800, 2000, 4500]))
        gaps = [draw(st.sampled_from([80, 120, 180, 250, 300])) for _ in range(k - 1)]
        cents = [base]
        for g in gaps:
            cents.append(cents[-1] + g)
        stds = [draw(st.sampled_from([15, 30, 50, 90])) for _ in range(k)]
        wgt = [draw(st.sampled_from([30, 60, 100])) for _ in range(k)]
        res = draw(st.sampled_from([10, 10, 1]))
        which = S.ints(draw, 0, sum(wgt) - 1, n_t)
        u1 = S.ints(draw, 1, 999, n_t)
        u2 = S.ints(draw, 1, 999, n_t)
        import math
        rows = []
        for i in range(n_t):
            m, acc = 0, 0
            for j, w in enumerate(wgt):
                acc += w
                if which[i] < acc:
                    m = j
                    break
            z = math.sqrt(-2 * math.log(u1[i] / 1000)) * math.cos(2 * math.pi * u2[i] / 1000)
            h = round((cents[m] + stds[m] * z) / res) * res
            rows.append(['a', -15.0 * (n_t - 1 - i), float(max(0, h)), 1])
        prms = {'MIN_SEP_VALS': [draw(st.sampled_from([50, 100])), 500], 'MIN_SEP_LIMS': [10000],
                'LAYERING_PRMS': {'gmm_kwargs': {'delta_mul_gain': draw(st.sampled_from([1.0, 0.95]))}}}
        return {'rows': rows, 'prms': prms}

    out = []

    @hypothesis.seed(runner.derive_seed(seed, 'rngsens', shard))
    @settings(max_examples=n, database=None, deadline=None, suppress_health_check=list(HealthCheck),
              phases=[Phase.generate])
    @given(scene())
    def run(case):
        sigs = set()
        for rs in (42, 1, 7, 123):
            ampycloud.reset_prms()
            dynamic.AMPYCLOUD_PRMS['LAYERING_PRMS']['gmm_kwargs']['random_seed'] = rs
            try:
                ch = ampycloud.run(observe.build_frame(case['rows']), prms=copy.deepcopy(case['prms']))
                sigs.add(json.dumps([ch.layers['n_hits'].tolist(), ch.layers['code'].tolist()]))
            except Exception:
                sigs.add('crash')
            finally:
                ampycloud.reset_prms()
        if len(sigs) > 1 and 'crash' not in sigs:
            out.append((case, len(sigs)))
    run()
    return out


def main():
    ap = argparse.ArgumentParser()
    ap.add_argument('--cases', type=int, default=3200)
    ap.add_argument('--seed', type=int, default=1)
    ap.add_argument('--keep', type=int, default=12)
    a = ap.parse_args()
    with cf.ProcessPoolExecutor(16, mp_context=mp.get_context('fork')) as pool:
        res = [x for part in pool.map(worker, [(i, a.cases // 16, a.seed) for i in range(16)]) for x in part]
    print(f'{len(res)} seed-sensitive scenes among {a.cases}')
    res.sort(key=lambda cn: (-cn[1], len(cn[0]['rows'])))
    odir = os.path.join(HERE, 'corpus', 'rng_sensitive')
    os.makedirs(odir, exist_ok=True)
    for f in os.listdir(odir):
        os.remove(os.path.join(odir, f))
    from vlib.runner import digest
    for case, nsig in res[:a.keep]:
        case = dict(case, cls='rng_sensitive')
        with open(os.path.join(odir, digest(case) + '.json'), 'w') as fil:
            json.dump({'origin': 'tools/find_rng_sensitive.py', 'distinct_outcomes_over_4_seeds': nsig, 'case': case}, fil)
    print('kept', min(len(res), a.keep))


if __name__ == '__main__':
    main()
