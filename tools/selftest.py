#!/usr/bin/env python3
"""Mutation self-test (development aid, not a registered command).

    tools/selftest.py [-p C01] [mutant ids...]

Each mutant of vlib/mutants/mutants.json is applied to a scratch copy of /repo/src under /tmp
(removed afterwards); the property's quick check is run with VERIF_SRC pointing at the copy and
must exit 1. Evidence and replays of these runs go to a scratch dir, never to /verif/evidence.
"""
import argparse, json, os, shutil, subprocess, sys, tempfile, time

HERE = os.path.dirname(os.path.dirname(os.path.abspath(__file__)))

def main():
    ap = argparse.ArgumentParser()
    ap.add_argument('-p', '--prop', default=None)
    ap.add_argument('--scale', default='1')
    ap.add_argument('--patch', default=None, help='apply this diff (seeded change) instead of a listed mutant')
    ap.add_argument('ids', nargs='*')
    a = ap.parse_args()
    muts = json.load(open(os.path.join(HERE, 'vlib/mutants/mutants.json')))
    if a.patch:
        muts = [{'id': os.path.basename(os.path.dirname(a.patch)) or 'patch', 'property': a.prop, 'patch': a.patch}]
    else:
        muts = [m for m in muts if (not a.prop or m['property'] == a.prop) and (not a.ids or m['id'] in a.ids)]
    rc_all = 0
    for m in muts:
        tmp = tempfile.mkdtemp(prefix='mut_')
        try:
            shutil.copytree('/repo/src', os.path.join(tmp, 'src'), ignore=shutil.ignore_patterns('__pycache__', '*.egg-info'))
            if 'patch' in m:
                r = subprocess.run(['patch', '-p1', '-s', '-d', tmp, '-i', os.path.abspath(m['patch'])], capture_output=True, text=True)
                if r.returncode:
                    print(f"{m['id']}: PATCH DOES NOT APPLY {r.stdout} {r.stderr}"); rc_all = 2; continue
            else:
                stale = False
                for ed in m.get('edits', [m]):
                    pth = os.path.join(tmp, 'src/ampycloud', ed['file'])
                    src = open(pth).read()
                    if src.count(ed['old']) != 1:
                        print(f"{m['id']}: ANCHOR x{src.count(ed['old'])} (need exactly 1) - mutant stale"); rc_all = 2; stale = True; break
                    open(pth, 'w').write(src.replace(ed['old'], ed['new']))
                if stale:
                    continue
            env = dict(os.environ, VERIF_SRC=os.path.join(tmp, 'src'), VERIF_OUT=os.path.join(tmp, 'out'),
                       VERIF_SCALE=a.scale)
            t0 = time.time()
            r = subprocess.run([os.path.join(HERE, 'check'), m['property']], env=env, capture_output=True, text=True)
            lines = [l for l in r.stdout.splitlines() if l.startswith(('VIOLATION', '  failed', 'HARNESS', 'KNOWN'))]
            verdict = 'CAUGHT' if r.returncode == 1 else ('MISSED' if r.returncode == 0 else 'HARNESS-ERROR')
            if r.returncode != 1: rc_all = max(rc_all, 1)
            print(f"{m['id']:28s} {m['property']} {verdict} rc={r.returncode} {time.time()-t0:.0f}s :: " + (lines[0][:230] if lines else r.stdout[-300:] + r.stderr[-300:]))
        finally:
            shutil.rmtree(tmp, ignore_errors=True)
    return rc_all

if __name__ == '__main__':
    sys.exit(main())
