#!/bin/bash
# tools/seed_verify.sh C07 [name]  -- confirm a sub-agent's seeded change in its scratch worktree
# (/tmp/seed/<ID>/SEED/{patch.diff,demo.py,notes.md}), run the property's quick check against it,
# and archive it under /verif/seeded/<name>/ with meta.json. The worktree is left clean.
ID=$1; NAME=${2:-$ID}; BASE=${3:-/tmp/seed}; W=$BASE/$ID; S=$W/SEED
[ -f $S/patch.diff ] || { echo "no patch for $ID"; exit 2; }
cd $W || exit 2
git checkout -q -- src && git apply --check $S/patch.diff || { echo "patch does not apply on HEAD"; exit 2; }
export PYTHONPATH=$W/src
/venv/bin/python $S/demo.py >$BASE/$ID.demo_orig.log 2>&1; RC_ORIG=$?
git apply $S/patch.diff
/venv/bin/python $S/demo.py >$BASE/$ID.demo_mut.log 2>&1; RC_MUT=$?
TESTS=$(/venv/bin/python -m pytest -q -p no:cacheprovider -n 8 2>&1 | tail -1)
git checkout -q -- src
unset PYTHONPATH
cd /verif
CHK=$(tools/selftest.py --patch $S/patch.diff -p ${ID:0:3} 2>&1 | grep -E "CAUGHT|MISSED|HARNESS|APPLY" | head -1)
echo "$ID: demo orig rc=$RC_ORIG, demo with change rc=$RC_MUT, tests: $TESTS"
echo "   check: $CHK"
mkdir -p seeded/$NAME && cp $S/patch.diff $S/demo.py seeded/$NAME/ && cp $S/notes.md seeded/$NAME/notes.md 2>/dev/null
python3 - "$ID" "$NAME" "$RC_ORIG" "$RC_MUT" "$TESTS" "$CHK" <<'PY'
import json, sys
pid, name, rc_o, rc_m, tests, chk = sys.argv[1:7]
notes = ''
try: notes = open(f'/verif/seeded/{name}/notes.md').read()
except Exception: pass
meta = {'property': pid[:3], 'name': name,
        'needs_to_manifest': notes.strip()[:1500],
        'confirmed': {'demo_on_original_rc': int(rc_o), 'demo_with_change_rc': int(rc_m), 'test_suite_with_change': tests.strip()},
        'what_i_ran': [f'git apply SEED/patch.diff in scratch worktree /tmp/seed/{pid}; PYTHONPATH=<worktree>/src /venv/bin/python SEED/demo.py (with and without the change); pytest -n 8 with the change',
                       f'tools/selftest.py --patch seeded/{name}/patch.diff -p {pid[:3]}  (quick check against a scratch copy of /repo/src with the patch applied)'],
        'check_result': chk.strip()}
json.dump(meta, open(f'/verif/seeded/{name}/meta.json', 'w'), indent=1)
PY
