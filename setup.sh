#!/bin/bash
# setup_cmd: offline; makes sure hypothesis is importable in /venv, puts atheris into /verif/.deps
# (optional engine), and runs an import self-test against /repo's working tree.
cd "$(dirname "$0")" || exit 2
export PIP_NO_INDEX=1
W=/opt/veriftools/wheels
/venv/bin/python -c "import hypothesis" 2>/dev/null || \
  /venv/bin/pip install --no-index --find-links "$W" hypothesis || exit 2
mkdir -p .deps
if ! PYTHONPATH="$PWD/.deps" /venv/bin/python -c "import atheris" 2>/dev/null; then
  /venv/bin/pip install --no-index --find-links "$W" --target "$PWD/.deps" atheris >/dev/null 2>&1 \
    || echo "setup: atheris not installable; the optional coverage-guided engine will be skipped"
fi
PYTHONPATH="$PWD:$PWD/.deps" /venv/bin/python - <<'PY' || exit 2
import sys
sys.path.insert(0, '/repo/src')
import hypothesis, ampycloud
assert ampycloud.__file__.startswith('/repo/src'), ampycloud.__file__
print('setup ok: hypothesis', hypothesis.__version__, 'ampycloud', ampycloud.__version__)
PY
